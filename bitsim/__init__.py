"""bitsim - deterministic simulation with fault injection for scott-griffiths/bitstring.

See /verif/DESIGN.md.  Everything here is pure Python on /venv/bin/python; bitstring is imported from the
working tree named by BITSIM_REPO (default /repo), never from a copy.
"""
