"""E-ALIAS / C04 - value isolation: immutable objects never change, mutable ones never share state.

A pool of <= 12 live entities of every kind (the four classes, Array, bitarray, bytearray, memoryview,
array.array, live generators).  Every entity has a shadow (its observed value when last legitimately changed).
Events derive new entities from old ones by every route of the statement, mutate one entity (or let an external
actor mutate a foreign buffer), call arbitrary public members of immutable objects, step generators and clear
caches.  After EVERY event every entity other than the declared target (and those coupled to it by Python's own
definition) must still equal its shadow.  No model of what operations compute is needed.  DESIGN 4/C04.
"""
from __future__ import annotations

import array
import copy
import io

import bitarray as _ba

from .. import kernel, loader
from ..kernel import Engine, call, canon

CLASSES = ('Bits', 'BitArray', 'ConstBitStream', 'BitStream')
MUTABLE = ('BitArray', 'BitStream')
IMMUTABLE = ('Bits', 'ConstBitStream')
FOREIGN = ('bitarray', 'bytearray', 'memoryview', 'array')
POOL = 12

DERIVE_ROUTES = (
    'ctor', 'ctor', 'ctor_str', 'ctor_bytes_kw', 'ctor_bitarray_kw', 'bits_kw', 'bits_prop', 'copy_copy', 'copy_method',
    'deepcopy', 'slice', 'slice', 'add', 'radd_str', 'add_self', 'mul', 'rmul', 'invert', 'lshift', 'rshift', 'and', 'or', 'xor',
    'and_self', 'join', 'join_empty', 'fromstring', 'pack_bits', 'pack_bits_len', 'pack_kw', 'read', 'readto', 'peek', 'readlist',
    'unpack', 'cut_piece', 'split_piece', 'str_again', 'array_from_bits', 'array_from_list', 'array_slice',
    'array_copy', 'array_from_array', 'array_data_slice', 'array_op', 'tobitarray', 'to_bytearray', 'to_memoryview',
    'to_array', 'to_ba', 'gen_findall', 'gen_cut', 'gen_split', 'gen_iter', 'bytesio', 'bool_list', 'dtype_build',
    'array_getitem_bits', 'ctor_from_foreign', 'ctor_from_foreign', 'ctor_value', 'ctor_value', 'pack_value', 'dtype_build_value', 'array_value',
)
CTOR_VALUES = (('bool', True, None), ('bool', False, None), ('uint', 1, 8), ('int', -1, 8), ('hex', 'ff', None), ('bin', '1', None), ('bin', '0', None), ('oct', '7', None),
               ('float', 1.5, 32), ('ue', 3, None), ('se', -2, None), ('uintle', 1, 16), ('bfloat', 1.0, None), ('e4m3mxfp', 1.0, None), ('bytes', b'a', None),
               ('uint', 0, 1), ('uint', 1, 1), ('hex', '0', None), ('mxint', 0.5, None), ('e2m1mxfp', 6.0, None))
MUT_OPS = ('append', 'prepend', 'insert', 'overwrite', 'delslice', 'setitem', 'setslice', 'set', 'invert', 'reverse', 'rol',
           'ror', 'byteswap', 'ilshift', 'irshift', 'imul', 'iand', 'ior', 'ixor', 'clear', 'replace', 'iadd',
           'prop_uint', 'prop_hex', 'prop_bits', 'prop_bin', 'prop_bytes', 'setpos', 'prop_any', 'prop_any', 'prop_any')
# (name, value) pairs for property assignment: every setter that builds its store a different way
PROP_VALUES = (('bool', True), ('bool', False), ('int', -1), ('int', 0), ('oct', '7'), ('float', 1.5), ('floatle', 1.5), ('bfloat', 1.0), ('uintle', 1), ('intbe', -2),
               ('ue', 3), ('se', -2), ('uie', 5), ('sie', -1), ('u8', 255), ('i4', -8), ('f16', 0.5), ('h', 'ff'), ('b', '1'), ('o', '0'), ('e4m3mxfp', 1.0),
               ('p4binary', 2.0), ('e2m1mxfp', 6.0), ('mxint', 0.5), ('e8m0mxfp', 4.0), ('bytes', b'a'), ('uint', 1), ('hex', '0'), ('bin', '0'), ('bin', '1'))
ARRAY_OPS = ('append', 'extend', 'insert', 'pop', 'setitem', 'setslice', 'delitem', 'reverse', 'iadd', 'imul', 'byteswap', 'data_append',
             'data_invert', 'data_assign', 'dtype_assign', 'fromfile', 'ixor', 'bitop_mask', 'bitop_mask')
FOREIGN_OPS = ('flip', 'append', 'clear', 'setall', 'extend', 'pop')


def observe(x):
    """Value of an entity, as a JSON-able object."""
    def go():
        if kernel.is_bits(x):
            return {'bin': x.bin, 'len': len(x)}
        if kernel.is_array(x):
            return {'dtype': str(x.dtype), 'data': x.data.bin}
        if isinstance(x, _ba.bitarray):
            return {'ba': x.to01()}
        if isinstance(x, (bytearray, memoryview)):
            return {'bytes': bytes(x).hex()}
        if isinstance(x, array.array):
            return {'arr': x.typecode, 'bytes': x.tobytes().hex()}
        return {'other': type(x).__name__}
    st, v = call(go)
    return v if st == 'ok' else {'exc': kernel.exc_name(v)}


def kind_of(x):
    if kernel.is_bits(x):
        return type(x).__name__
    if kernel.is_array(x):
        return 'Array'
    if isinstance(x, _ba.bitarray):
        return 'bitarray'
    if isinstance(x, bytearray):
        return 'bytearray'
    if isinstance(x, memoryview):
        return 'memoryview'
    if isinstance(x, array.array):
        return 'array'
    return None


class Ent:
    __slots__ = ('kind', 'obj', 'shadow', 'route', 'parents', 'coupled', 'twin', 'gen_expected', 'gen_i', 'gen_src', 'stale', 'literal', 'serial')

    def __init__(self, kind, obj, route, parents, serial):
        self.kind = kind
        self.obj = obj
        self.route = route
        self.parents = parents
        self.coupled = set()
        self.shadow = None
        self.twin = None
        self.gen_expected = None
        self.gen_i = 0
        self.gen_src = None
        self.stale = False
        self.literal = None
        self.serial = serial


class EAlias(Engine):
    prop = 'C04'
    name = 'E-ALIAS'
    level = 'exploration'
    fault_kinds = ('mutate', 'external', 'cache_clear', 'step', 'probe_immutable')
    mutating_kinds = ('derive', 'mutate', 'external')
    rule = ('seeded histories over a pool of <= 12 live entities; events: derive (58 routes), mutate (28 bitstring ops, 17 '
            'Array ops), external-actor mutation of foreign buffers, probe of every public member of immutable objects, '
            'generator steps, cache clears. The generator prefers to mutate entities that share a buffer with another '
            '(greybox guidance only; the verdict is behavioural). Non-trivial = at least one derivation AND at least one '
            'mutation / external mutation / probe / generator step / cache clear; distinct = distinct event-list digest.')
    stub_components = ['ExternalActor: the simulator itself mutating bitarray / bytearray / memoryview / array.array objects '
                       'that bitstrings were built from or that were obtained from them']
    assumptions = ['a memoryview and its bytearray, and an Array and its .data, are coupled by Python\'s own definition',
                   'changes made to a mapped file by another process are platform-dependent and never generated']
    # 'mutated_entity_shared_a_buffer' is greybox guidance that can only fire while an aliasing defect exists
    expected_probes = ('derive_via_cache_hit', 'external_mutation_of_source_buffer',
                       'external_mutation_of_tobitarray_result', 'immutable_member_called', 'generator_stepped_after_mutation',
                       'mutation_with_self_operand', 'array_mutated', 'array_bitop_with_live_mask', 'run_under_lsb0')

    def plan(self, tier, base_seed):
        descs = self.seeded_plan(tier, base_seed, quick=(16000, 40), thorough=(1200000, 60))
        for i, d in enumerate(descs):
            if i % 40 == 7:
                # size knob: objects of a page (4096 bytes) and more - copies of big stores may be made another way than small ones
                d['big'] = True
                d['n'] = 14
        return descs

    def config(self, g, desc):
        init = []
        for _ in range(g.int(2, 4)):
            init.append({'cls': g.pick(CLASSES), 'bits': g.bits(g.length(48)), 'via': g.pick(['bin', 'str', 'str'])})
        if desc.get('big'):
            init = [{'cls': g.pick(CLASSES), 'bits': g.bits(64), 'rep': g.pick([512, 513, 640, 1025]), 'via': 'bin'} for _ in range(2)]
        return {'avoid': bool(desc.get('avoid')), 'init': init, 'big': bool(desc.get('big')),
                'w_mut': g.pick([1, 2, 3]), 'w_probe': g.pick([0, 1, 2]), 'w_step': g.pick([0, 1, 2]), 'w_cache': g.pick([0, 1]),
                # knob: isolation must hold whichever bit numbering is in force (other code paths are bound in lsb0 mode)
                'lsb0': g.chance(0.25), 'bytealigned': g.chance(0.15)}

    # -------------------------------------------------------------------------------------------------
    def start(self, cfg):
        self.cfg = cfg
        self.R = loader.main()
        self.R.reset()
        self.B = self.R.pkg
        self.pool = []
        self.serial = 0
        if cfg.get('lsb0'):
            self.B.options.lsb0 = True
            self.probe('run_under_lsb0')
        if cfg.get('bytealigned'):
            self.B.options.bytealigned = True
        self.members = {c: [m for m in sorted(dir(getattr(self.B, c))) if not m.startswith('_')] for c in IMMUTABLE}
        for e in cfg.get('init', [])[:6]:
            cls = e.get('cls') if e.get('cls') in CLASSES else 'Bits'
            bits = ''.join(c for c in str(e.get('bits', '')) if c in '01')
            if isinstance(e.get('rep'), int) and 1 < e['rep'] <= 2048:
                bits = bits * e['rep']
                self.probe('big_objects')
            if e.get('via') == 'str':
                lit = _literal(bits)
                obj = getattr(self.B, cls)(lit)
            else:
                lit = None
                obj = getattr(self.B, cls)(bin=bits)
            ent = self._add(obj, 'init', [])
            if ent is not None:
                ent.literal = lit
        if cfg.get('big'):
            # a caller's buffer of a page and more, a read-only view of it, and an immutable bitstring built from the view: the
            # owner of the buffer can still write, and what was built from the view must not follow
            buf = bytearray(bytes(range(256)) * 16 + b'\x5a' * (len(self.pool) % 3))
            f = self._add(buf, 'init', [])
            mv = memoryview(buf).toreadonly()
            m = self._add(mv, 'init', [f.serial] if f is not None else [])
            if f is not None and m is not None:
                f.coupled = {m.serial}
                m.coupled = {f.serial}
                self.probe('readonly_view_of_writable_buffer')
                cls = cfg.get('init', [{}])[0].get('cls')
                self._add(getattr(self.B, cls if cls in CLASSES else 'Bits')(mv), 'ctor_from_foreign', [m.serial])
        return {'n': len(self.pool)}

    def cleanup(self):
        try:
            self.R.reset()
        except Exception:
            pass

    def _add(self, obj, route, parents, gen_expected=None, gen_src=None):
        """Add an entity (deduplicated BY IDENTITY: copy() of an immutable may legitimately return the same object)."""
        if gen_expected is None:
            k = kind_of(obj)
            if k is None:
                return None
            for e in self.pool:
                if e.obj is obj:
                    return None
        else:
            k = 'gen'
        self.serial += 1
        ent = Ent(k, obj, route, list(parents), self.serial)
        if k == 'gen':
            ent.gen_expected = gen_expected
            ent.gen_src = gen_src
        else:
            self._reshadow(ent)
        if len(self.pool) < POOL:
            self.pool.append(ent)
        else:
            # replace the oldest entity; drop couplings to it
            j = min(range(len(self.pool)), key=lambda i: self.pool[i].serial)
            old = self.pool[j]
            for e in self.pool:
                e.coupled.discard(old.serial)
            self.pool[j] = ent
        return ent

    def _reshadow(self, ent):
        ent.shadow = observe(ent.obj)
        if ent.kind in IMMUTABLE:
            st, t = call(lambda: self.B.Bits(bin=ent.shadow['bin']) if ent.shadow.get('bin') else self.B.Bits())
            ent.twin = t if st == 'ok' else None

    def _ent(self, i):
        return self.pool[int(i) % len(self.pool)] if self.pool else None

    def _bits_ent(self, i, classes=CLASSES):
        """First bitstring entity of the wanted classes at or after index i (cyclically)."""
        n = len(self.pool)
        for d in range(n):
            e = self.pool[(int(i) + d) % n]
            if e.kind in classes:
                return e
        return None

    def _kind_ent(self, i, kinds):
        n = len(self.pool)
        for d in range(n):
            e = self.pool[(int(i) + d) % n]
            if e.kind in kinds:
                return e
        return None

    # -------------------------------------------------------------------------------------------------
    def gen(self, g):
        cfg = self.cfg
        n = len(self.pool)
        k = g.wpick([('derive', 4), ('mutate', 2 * cfg['w_mut']), ('external', cfg['w_mut']), ('probe_immutable', cfg['w_probe']),
                     ('step', cfg['w_step']), ('cache_clear', cfg['w_cache'] * 0.5)])
        if k == 'derive':
            ev = {'k': 'derive', 'route': g.pick(DERIVE_ROUTES), 'cls': g.pick(CLASSES), 'src': g.int(0, max(n - 1, 0)), 'src2': g.int(0, max(n - 1, 0)),
                  'a': g.pick([None, 0, 1, 2, 3, -1, -3, 8]), 'b': g.pick([None, None, 5, 8, -1, 16, 100]), 'c': g.pick([None, None, 1, 2, -1, 3]),
                  'n': g.pick([0, 1, 2, 3, 8]), 's': _literal(g.bits(g.pick([4, 8, 8, 12, 3]))), 'dtype': g.pick(['uint8', 'int4', 'hex2', 'bin3', 'bits4', 'bool', 'float16', '>H'])}
            return ev
        if k == 'mutate':
            # greybox guidance: prefer a target that shares a buffer with another entity
            tgt = g.int(0, max(n - 1, 0))
            sharing = self._sharing_targets()
            if sharing and g.chance(0.6):
                tgt = g.pick(sharing)
            return {'k': 'mutate', 'target': tgt, 'op': g.pick(MUT_OPS), 'aop': g.pick(ARRAY_OPS), 'operand': g.int(0, max(n - 1, 0)),
                    'self_operand': g.chance(0.12), 'bits': g.bits(g.pick([1, 3, 8, 8, 16, 0])), 'pos': g.pick([0, 1, 3, -1, 8, 100, None]),
                    'end': g.pick([None, None, 8, 16, -1]), 'n': g.pick([0, 1, 2, 3, 9]), 'v': g.pick([0, 1, 5, 255, -1, 2 ** 40])}
        if k == 'external':
            return {'k': 'external', 'target': g.int(0, max(n - 1, 0)), 'op': g.pick(FOREIGN_OPS), 'i': g.int(0, 40), 'v': g.int(0, 255)}
        if k == 'probe_immutable':
            cls = g.pick(IMMUTABLE)
            mem = self.members[cls]
            if g.chance(0.25):
                # length-carrying property names are resolved on the fly and are not in dir(): read (on whatever immutable the pool
                # holds - often a slice or an operator result) and assigned like any other member
                nm = g.pick(['u', 'i', 'uint', 'int', 'hex', 'bin', 'oct', 'h', 'b', 'o', 'f', 'float', 'bytes', 'bits', 'uintle', 'intbe', 'bool']) + str(g.pick([1, 3, 4, 8, 12, 16, 24, 32, 2]))
                return {'k': 'probe_immutable', 'target': g.int(0, max(n - 1, 0)), 'member': nm, 'assign': g.chance(0.5), 'args': [g.pick([0, 1, 5, '0', '1', 'a', 1.0, True])]}
            return {'k': 'probe_immutable', 'target': g.int(0, max(n - 1, 0)), 'member': g.pick(mem), 'assign': g.chance(0.3),
                    'args': [g.pick([0, 1, 2, 8, -1, None, True, '0b1', '0x0f', 'uint:4', 'bin', [0, 1], 100]) for _ in range(g.int(0, 3))]}
        if k == 'step':
            return {'k': 'step', 'target': g.int(0, max(n - 1, 0)), 'times': g.pick([1, 1, 2, 5])}
        return {'k': 'cache_clear'}

    def _sharing_targets(self):
        try:
            return self._sharing_targets_unsafe()
        except AttributeError:
            return []        # greybox guidance only: a tree with another private layout simply gets no guidance

    def _sharing_targets_unsafe(self):
        ids = {}
        for i, e in enumerate(self.pool):
            if e.kind in CLASSES:
                ids.setdefault(id(e.obj._bitstore._bitarray), []).append(i)
            elif e.kind == 'Array':
                ids.setdefault(id(e.obj.data._bitstore._bitarray), []).append(i)
            elif e.kind == 'bitarray':
                ids.setdefault(id(e.obj), []).append(i)
        out = []
        for grp in ids.values():
            if len(grp) > 1:
                out.extend(i for i in grp if self.pool[i].kind in MUTABLE + ('Array', 'bitarray'))
        return sorted(out)

    # -------------------------------------------------------------------------------------------------
    def apply(self, ev):
        k = ev.get('k')
        if not self.pool:
            self._add(self.B.Bits('0b1'), 'init', [])
        fn = getattr(self, 'ev_' + str(k), None)
        if fn is None:
            return {'skip': k}, []
        self._extra = []
        exempt, label, obs = fn(ev)
        incs = self._extra + self._check_all(exempt, label, ev)
        self._extra = []
        self.state(len(self.pool), sum(1 for e in self.pool if e.kind in MUTABLE), sum(1 for e in self.pool if e.kind in FOREIGN), bool(self._sharing_targets()))
        self.transition(k, ev.get('route') or ev.get('op') or ev.get('member'), obs.get('st'))
        return obs, incs

    def _check_all(self, exempt_serials, label, ev):
        """Every entity outside the exempt set still equals its shadow."""
        incs = []
        by_serial = {e.serial: e for e in self.pool}
        tgt = [by_serial[s] for s in exempt_serials if s in by_serial]
        for e in self.pool:
            if e.kind == 'gen' or e.serial in exempt_serials:
                continue
            now = observe(e.obj)
            ok = now == e.shadow
            if ok and e.kind in IMMUTABLE and e.twin is not None:
                st, same = call(lambda: (hash(e.obj) == hash(e.twin)) and (e.obj == e.twin))
                ok = st == 'ok' and bool(same)
            if not ok:
                via = self._attribute(e, tgt)
                tk = ','.join(sorted(t.kind for t in tgt)) or '-'
                incs.append(self.inc(f'isolation|{label}|victim={e.kind}|target={tk}|via={via}', event=ev, victim_route=e.route,
                                     victim_was=_short(e.shadow), victim_now=_short(now)))
                # resynchronise: accept the new value so that one breach is reported once
                self._reshadow(e)
                for g_ in self.pool:
                    if g_.kind == 'gen' and g_.gen_src == e.serial:
                        g_.stale = True
        return incs

    def _attribute(self, victim, targets):
        """Which derivation route related the victim to the target (for a stable, specific signature)."""
        for t in targets:
            if t.serial in victim.parents:
                return victim.route
            if victim.serial in t.parents:
                return t.route
        for t in targets:
            common = set(victim.parents) & set(t.parents)
            if common:
                return f'siblings({min(victim.route, t.route)},{max(victim.route, t.route)})'
        return f'unrelated({victim.route})'

    # ---- derive ---------------------------------------------------------------------------------------
    def ev_derive(self, ev):
        B = self.B
        route = str(ev.get('route'))
        cls = ev.get('cls') if ev.get('cls') in CLASSES else 'Bits'
        C = getattr(B, cls)
        src = self._ent(ev.get('src', 0))
        src2 = self._ent(ev.get('src2', 0))
        bsrc = self._bits_ent(ev.get('src', 0))
        bsrc2 = self._bits_ent(ev.get('src2', 0))
        a, b, c = ev.get('a'), ev.get('b'), ev.get('c')
        n = ev.get('n', 1) if isinstance(ev.get('n', 1), int) else 1
        s = str(ev.get('s', '0b1'))
        parents = []
        made = []          # list of (obj, gen_expected, gen_src)
        viewed = []        # the bytearray entity a new memoryview looks at (captured before the pool changes)

        def P(*ents):
            for e in ents:
                if e is not None:
                    parents.append(e.serial)
                    parents.extend(e.parents[:6])

        if bsrc is not None and route in ('split_piece', 'cut_piece', 'gen_split', 'gen_cut', 'gen_findall', 'gen_iter', 'bool_list', 'join', 'mul', 'rmul', 'unpack', 'readlist') \
                and kernel.is_bits(bsrc.obj) and len(bsrc.obj) > 8192:
            # tens of thousands of pieces of a source that earlier self-referential growth made huge: a workload bomb, not a library matter
            return set(), f'derive:{route}:skipped-huge-source', {'st': 'skip'}

        def go():
            if route == 'ctor' and bsrc:
                P(bsrc); made.append(C(bsrc.obj))
            elif route == 'ctor_str':
                made.append(C(s))
            elif route == 'ctor_from_foreign':
                f = self._kind_ent(ev.get('src', 0), FOREIGN)
                if f:
                    P(f); made.append(C(f.obj))
            elif route == 'ctor_bytes_kw':
                f = self._kind_ent(ev.get('src', 0), ('bytearray', 'memoryview'))
                if f:
                    P(f); made.append(C(bytes=f.obj, offset=min(abs(a or 0), 3)))
            elif route == 'ctor_bitarray_kw':
                f = self._kind_ent(ev.get('src', 0), ('bitarray',))
                if f:
                    P(f); made.append(C(bitarray=f.obj, offset=min(abs(a or 0), len(f.obj))))
            elif route == 'bits_kw' and bsrc:
                P(bsrc); made.append(C(bits=bsrc.obj))
            elif route == 'bits_prop' and bsrc:
                P(bsrc)
                x = getattr(B, cls if cls in MUTABLE else 'BitArray')()
                x.bits = bsrc.obj
                made.append(x)
            elif route == 'copy_copy' and src and src.kind != 'gen' and src.kind != 'memoryview':
                P(src); made.append(copy.copy(src.obj))
            elif route == 'deepcopy' and src and src.kind in CLASSES + ('Array', 'bitarray', 'bytearray', 'array'):
                P(src); made.append(copy.deepcopy(src.obj))
            elif route == 'copy_method' and bsrc:
                P(bsrc); made.append(bsrc.obj.copy())
            elif route == 'slice' and bsrc:
                P(bsrc); made.append(bsrc.obj[a:b:c])
            elif route == 'add' and bsrc and bsrc2:
                P(bsrc, bsrc2); made.append(bsrc.obj + bsrc2.obj)
            elif route == 'radd_str' and bsrc:
                P(bsrc); made.append(s + bsrc.obj)
            elif route == 'add_self' and bsrc:
                P(bsrc); made.append(bsrc.obj + bsrc.obj)
            elif route == 'mul' and bsrc:
                P(bsrc); made.append(bsrc.obj * n)
            elif route == 'rmul' and bsrc:
                P(bsrc); made.append(n * bsrc.obj)
            elif route == 'invert' and bsrc:
                P(bsrc); made.append(~bsrc.obj)
            elif route == 'lshift' and bsrc:
                P(bsrc); made.append(bsrc.obj << n)
            elif route == 'rshift' and bsrc:
                P(bsrc); made.append(bsrc.obj >> n)
            elif route in ('and', 'or', 'xor') and bsrc:
                other = None
                for e in self.pool:
                    if e.kind in CLASSES and e is not bsrc and len(e.obj) == len(bsrc.obj):
                        other = e
                        break
                P(bsrc, other)
                o = other.obj if other else ('0b' + '1' * len(bsrc.obj) if len(bsrc.obj) else '')
                made.append({'and': lambda x, y: x & y, 'or': lambda x, y: x | y, 'xor': lambda x, y: x ^ y}[route](bsrc.obj, o))
            elif route == 'and_self' and bsrc:
                P(bsrc); made.append(bsrc.obj & bsrc.obj); made.append(bsrc.obj | bsrc.obj); made.append(bsrc.obj ^ bsrc.obj)
            elif route == 'join' and bsrc and bsrc2:
                P(bsrc, bsrc2); made.append(bsrc.obj.join([bsrc2.obj, s, bsrc.obj, bsrc2.obj]))
            elif route == 'join_empty' and bsrc:
                P(bsrc); made.append(C().join([bsrc.obj, bsrc.obj]))
            elif route == 'fromstring':
                made.append(C.fromstring(s))
            elif route == 'pack_bits' and bsrc:
                P(bsrc); made.append(B.pack('bits', bsrc.obj))
            elif route == 'pack_bits_len' and bsrc:
                P(bsrc); made.append(B.pack(f'bits:{len(bsrc.obj)}, bits', bsrc.obj, bsrc.obj))
            elif route == 'pack_kw' and bsrc:
                P(bsrc); made.append(B.pack('x, bits=x', x=bsrc.obj))
            elif route in ('read', 'peek') and bsrc:
                st = self._bits_ent(ev.get('src', 0), ('ConstBitStream', 'BitStream'))
                if st:
                    P(st); made.append(getattr(st.obj, route)(min(n, len(st.obj) - st.obj.pos)))
            elif route == 'readto':
                st = self._bits_ent(ev.get('src', 0), ('ConstBitStream', 'BitStream'))
                if st:
                    P(st); made.append(st.obj.readto('0b1'))
            elif route == 'readlist':
                st = self._bits_ent(ev.get('src', 0), ('ConstBitStream', 'BitStream'))
                if st:
                    P(st)
                    st.obj.pos = 0
                    for x in st.obj.readlist([min(n, len(st.obj)), 'bits']):
                        made.append(x)
            elif route == 'unpack' and bsrc:
                P(bsrc)
                for x in bsrc.obj.unpack(f'bits:{min(n, len(bsrc.obj))}, bits'):
                    made.append(x)
            elif route == 'cut_piece' and bsrc:
                P(bsrc)
                for x in list(bsrc.obj.cut(max(n, 1) * 3))[:3]:
                    made.append(x)
            elif route == 'split_piece' and bsrc:
                P(bsrc)
                for x in list(bsrc.obj.split('0b1'))[:3]:
                    made.append(x)
            elif route == 'str_again':
                lits = [e for e in self.pool if e.literal]
                if lits:
                    e0 = lits[int(ev.get('src', 0)) % len(lits)]
                    self.probe('derive_via_cache_hit')
                    x = C(e0.literal) if n % 2 else C.fromstring(e0.literal)
                    made.append(x)
                    return e0.literal
            elif route == 'array_from_bits' and bsrc:
                P(bsrc); made.append(B.Array(str(ev.get('dtype', 'uint8')), bsrc.obj))
            elif route == 'array_from_list':
                made.append(B.Array('uint8', [1, 2, 3, n]))
            elif route == 'array_slice':
                ar = self._kind_ent(ev.get('src', 0), ('Array',))
                if ar:
                    P(ar); made.append(ar.obj[a:b:c])
            elif route == 'array_copy':
                ar = self._kind_ent(ev.get('src', 0), ('Array',))
                if ar:
                    P(ar); made.append(copy.copy(ar.obj))
            elif route == 'array_from_array':
                ar = self._kind_ent(ev.get('src', 0), ('Array',))
                if ar:
                    P(ar); made.append(B.Array(ar.obj.dtype, ar.obj))
            elif route == 'array_data_slice':
                ar = self._kind_ent(ev.get('src', 0), ('Array',))
                if ar:
                    P(ar); made.append(ar.obj.data[:]); made.append(C(ar.obj.data))
            elif route == 'array_op':
                ar = self._kind_ent(ev.get('src', 0), ('Array',))
                if ar:
                    P(ar); made.append(ar.obj ^ ('0b' + '1' * ar.obj.itemsize))
            elif route == 'array_getitem_bits':
                ar = self._kind_ent(ev.get('src', 0), ('Array',))
                if ar and len(ar.obj):
                    P(ar)
                    ar2 = copy.copy(ar.obj)
                    made.append(ar.obj.data[0:ar.obj.itemsize])
            elif route == 'tobitarray' and bsrc:
                P(bsrc); made.append(bsrc.obj.tobitarray())
            elif route == 'to_bytearray' and bsrc:
                P(bsrc); made.append(bytearray(bsrc.obj.tobytes()))
            elif route == 'to_memoryview':
                f = self._kind_ent(ev.get('src', 0), ('bytearray',))
                if f:
                    P(f)
                    mv = memoryview(f.obj)
                    if (int(ev.get('src', 0)) + len(self.pool)) % 2 == 0:
                        mv = mv.toreadonly()          # read-only for its holder - the owner of the bytearray can still write
                        self.probe('readonly_view_of_writable_buffer')
                    made.append(mv)
                    viewed.append(f)
            elif route == 'to_array' and bsrc:
                P(bsrc); made.append(array.array('B', bsrc.obj.tobytes()))
            elif route == 'to_ba' and bsrc:
                P(bsrc); made.append(_ba.bitarray(bsrc.obj.bin))
            elif route == 'bytesio' and bsrc:
                P(bsrc); made.append(C(io.BytesIO(bsrc.obj.tobytes())))
            elif route == 'bool_list' and bsrc:
                P(bsrc); made.append(C(list(bsrc.obj)[:64]))
            elif route == 'dtype_build' and bsrc:
                P(bsrc); made.append(B.Dtype('bits').build(bsrc.obj)); made.append(B.Dtype('bits').parse(bsrc.obj))
            elif route == 'ctor_value':
                name, val, ln = CTOR_VALUES[(n * 7 + int(ev.get('src', 0))) % len(CTOR_VALUES)]
                made.append(C(**({name: val, 'length': ln} if ln else {name: val})))
            elif route == 'pack_value':
                name, val, ln = CTOR_VALUES[(n * 7 + int(ev.get('src', 0))) % len(CTOR_VALUES)]
                made.append(B.pack(f'{name}:{ln}' if ln else name, val))
            elif route == 'dtype_build_value':
                name, val, ln = CTOR_VALUES[(n * 7 + int(ev.get('src', 0))) % len(CTOR_VALUES)]
                made.append(B.Dtype(name, ln).build(val) if ln else B.Dtype(name).build(val))
            elif route == 'array_value':
                made.append(B.Array('bool', [True, False, True]))
                made.append(B.Array('uint1', [1, 0]).data)
            elif route in ('gen_findall', 'gen_cut', 'gen_split', 'gen_iter') and src:
                tgt = bsrc if route != 'gen_iter' or src.kind not in ('Array',) else src
                if tgt is None:
                    return None
                P(tgt)
                obj = tgt.obj
                private = copy.copy(obj) if tgt.kind == 'Array' else type(obj)(bin=obj.bin) if len(obj) else type(obj)()
                mk = {'gen_findall': lambda o: o.findall('0b1'), 'gen_cut': lambda o: o.cut(max(n, 1) * 2),
                      'gen_split': lambda o: o.split('0b11'), 'gen_iter': lambda o: iter(o)}[route]
                exp = []
                for j, item in enumerate(mk(private)):
                    exp.append(canon(item))
                    if j > 300:
                        break
                made.append((mk(obj), exp, tgt.serial))
            return None

        st, v = call(go)
        added = []
        # a derivation from a MUTABLE object hands back a new object: were it the operand itself, changing "the result" would change
        # the operand (an immutable may hand itself back - there is nothing to tell apart)
        for m in made:
            if not isinstance(m, tuple) and kind_of(m) in MUTABLE and route not in ('iadd_result',):
                for e in self.pool:
                    if e.obj is m and e.kind in MUTABLE and (e.serial in parents[:1] or e is bsrc or e is bsrc2):
                        self._extra.append(self.inc(f'isolation|derive:{route}|result-is-the-mutable-operand-itself', event=ev, cls=e.kind, n=n))
                        self.probe('derive_returned_operand')
        for m in made:
            if isinstance(m, tuple):
                ent = self._add(m[0], route, parents, gen_expected=m[1], gen_src=m[2])
            else:
                ent = self._add(m, route, parents)
            if ent is not None:
                added.append(ent)
                if isinstance(v, str) and st == 'ok' and route == 'str_again':
                    ent.literal = v
                if route == 'ctor_str' or route == 'fromstring':
                    ent.literal = s
        # couplings that hold by Python's own definition
        if route == 'to_memoryview' and added and viewed:
            f = viewed[0]
            # every view of one bytearray belongs to one coupling group (transitively); f itself may just have been
            # evicted from the pool by the new entity, its group lives on in the views
            group = {f.serial, added[0].serial} | set(f.coupled)
            for e in self.pool:
                if e.serial in group:
                    e.coupled = group - {e.serial}
        # a stream source's pos may move by read routes: not part of the value.  Nothing is exempt from the check.
        return set(), f'derive:{route}', {'st': st, 'new': [e.kind for e in added], 'exc': kernel.exc_name(v) if st == 'exc' else None}

    # ---- mutate ---------------------------------------------------------------------------------------
    def _operand(self, ev, tgt):
        if ev.get('self_operand'):
            self.probe('mutation_with_self_operand')
            return tgt.obj
        o = self._bits_ent(ev.get('operand', 0))
        if o is not None and (int(ev.get('operand', 0)) % 3 == 0):
            return o.obj
        bits = ''.join(ch for ch in str(ev.get('bits', '')) if ch in '01')
        return _literal(bits)

    def ev_mutate(self, ev):
        B = self.B
        tgt = self._ent(ev.get('target', 0))
        if tgt is None or tgt.kind == 'gen':
            return set(), 'mutate:none', {'st': 'skip'}
        if tgt.kind in FOREIGN:
            return self.ev_external(ev)
        if tgt.kind in IMMUTABLE:
            # there is nothing to mutate through a documented mutator: go through the probe path instead
            return self.ev_probe_immutable({'k': 'probe_immutable', 'target': ev.get('target', 0), 'member': str(ev.get('op', 'copy')), 'args': [ev.get('bits', '')], 'assign': False})
        if tgt.kind in MUTABLE and tgt in [self.pool[i] for i in self._sharing_targets()]:
            self.probe('mutated_entity_shared_a_buffer')
        x = tgt.obj
        pos, end, n, v = ev.get('pos'), ev.get('end'), ev.get('n', 1), ev.get('v', 0)
        n = n if isinstance(n, int) else 1
        if tgt.kind == 'Array':
            self.probe('array_mutated')
            aop = str(ev.get('aop'))

            def go():
                if aop == 'append':
                    x.append(v)
                elif aop == 'extend':
                    x.extend([v, 1])
                elif aop == 'insert':
                    x.insert(pos or 0, v)
                elif aop == 'pop':
                    x.pop()
                elif aop == 'setitem':
                    x[pos or 0] = v
                elif aop == 'setslice':
                    x[0:2] = [v]
                elif aop == 'delitem':
                    del x[pos or 0]
                elif aop == 'reverse':
                    x.reverse()
                elif aop == 'iadd':
                    y = x
                    y += 1
                elif aop == 'imul':
                    y = x
                    y *= 2
                elif aop == 'ixor':
                    y = x
                    y ^= '0b' + '1' * x.itemsize
                elif aop == 'bitop_mask':
                    # a live bitstring of the pool as the mask of an element-wise & | ^ (plain, in-place, reflected): the mask
                    # is an operand, never a target.  An Array of the mask's width stands in when the widths differ.
                    o = self._bits_ent(ev.get('operand', 0))
                    if o is None or not 1 <= len(o.obj) <= 256:
                        return 'skip'
                    t = x if (x.itemsize == len(o.obj) and len(x) >= 1) else B.Array(f'bin{len(o.obj)}', ['1' * len(o.obj), '0' * len(o.obj), '1' * len(o.obj)])
                    how = abs(v) % 9 if isinstance(v, int) else 0
                    sym = ('&', '|', '^')[how % 3]
                    if how < 3:
                        t = {'&': t.__iand__, '|': t.__ior__, '^': t.__ixor__}[sym](o.obj)
                    elif how < 6:
                        {'&': t.__and__, '|': t.__or__, '^': t.__xor__}[sym](o.obj)
                    else:
                        {'&': t.__rand__, '|': t.__ror__, '^': t.__rxor__}[sym](o.obj)
                    self.probe('array_bitop_with_live_mask')
                elif aop == 'byteswap':
                    x.byteswap()
                elif aop == 'data_append':
                    x.data.append(self._operand(ev, tgt) if not ev.get('self_operand') else '0b1')
                elif aop == 'data_invert':
                    x.data.invert()
                elif aop == 'data_assign':
                    o = self._bits_ent(ev.get('operand', 0), MUTABLE)
                    x.data = B.BitArray(o.obj) if o else B.BitArray('0xff')
                elif aop == 'dtype_assign':
                    x.dtype = 'uint4'
                elif aop == 'fromfile':
                    x.fromfile(io.BytesIO(b'\x01\x02\x03\x04'), 1)
            st, r = call(go)
            self._after_mutation(tgt)
            return {tgt.serial} | tgt.coupled, f'mutate:Array.{aop}', {'st': st}
        op = str(ev.get('op'))
        big_ok = bool(self.cfg.get('big')) and not ev.get('self_operand') and len(x) <= 300000 and op != 'imul'
        if (len(x) > 2048 or (ev.get('self_operand') and len(x) > 256)) and not big_ok and op in ('replace', 'imul', 'append', 'prepend', 'insert', 'iadd', 'overwrite', 'setslice', 'prop_bits'):
            # repeated self-referential growth (x.replace('0b1', x) ...) is exponential: a workload bomb, not a library matter
            return set(), 'mutate:skipped-growth-of-large-target', {'st': 'skip'}

        def go():
            o = self._operand(ev, tgt)
            if op == 'append':
                x.append(o)
            elif op == 'iadd':
                y = x
                y += o
            elif op == 'prepend':
                x.prepend(o)
            elif op == 'insert':
                x.insert(o, pos if pos is not None else 0)
            elif op == 'overwrite':
                x.overwrite(o, pos if pos is not None else 0)
            elif op == 'delslice':
                del x[pos:end]
            elif op == 'setitem':
                x[pos or 0] = v if v in (0, 1) else o
            elif op == 'setslice':
                x[pos:end] = o
            elif op == 'set':
                x.set(v & 1, [p for p in (pos, 0) if isinstance(p, int)])
            elif op == 'invert':
                x.invert() if pos is None else x.invert(pos)
            elif op == 'reverse':
                x.reverse()
            elif op == 'rol':
                x.rol(n)
            elif op == 'ror':
                x.ror(n)
            elif op == 'byteswap':
                x.byteswap()
            elif op == 'ilshift':
                y = x
                y <<= n
            elif op == 'irshift':
                y = x
                y >>= n
            elif op == 'imul':
                y = x
                y *= min(n, 3)
            elif op in ('iand', 'ior', 'ixor'):
                y = x
                oo = o if (kernel.is_bits(o) and len(o) == len(x)) else ('0b' + '10' * (len(x) // 2) + '1' * (len(x) % 2) if len(x) else '')
                if op == 'iand':
                    y &= oo
                elif op == 'ior':
                    y |= oo
                else:
                    y ^= oo
            elif op == 'clear':
                x.clear()
            elif op == 'replace':
                if len(x) > 2048:
                    x.replace('0b1', o, None, None, 3)      # (a big target: a few occurrences, not tens of thousands)
                else:
                    x.replace('0b1', o)
            elif op == 'prop_uint':
                x.uint = abs(v) % (2 ** len(x)) if len(x) else 0
            elif op == 'prop_hex':
                x.hex = 'a5'
            elif op == 'prop_bits':
                x.bits = o
            elif op == 'prop_bin':
                x.bin = '0110'
            elif op == 'prop_bytes':
                x.bytes = b'\x0f\xf0'
            elif op == 'prop_any':
                name, val = PROP_VALUES[abs(v) % len(PROP_VALUES)]
                if name in ('int', 'uint', 'float', 'floatle', 'uintle', 'intbe') and len(x) not in (16, 32, 64):
                    x.clear()
                    x.append('0x0000')
                setattr(x, name, val)
            elif op == 'setpos' and kernel.is_stream(x):
                x.pos = min(abs(pos or 0), len(x))
        st, r = call(go)
        self._after_mutation(tgt)
        return {tgt.serial} | tgt.coupled, f'mutate:{op}', {'st': st, 'exc': kernel.exc_name(r) if st == 'exc' else None}

    def _after_mutation(self, tgt):
        self._reshadow(tgt)
        for e in self.pool:
            if e.serial in tgt.coupled:
                self._reshadow(e)
            if e.kind == 'gen' and e.gen_src == tgt.serial:
                e.stale = True

    def ev_external(self, ev):
        """The external actor mutates a foreign buffer (a source of, or a result from, a bitstring)."""
        tgt = self._kind_ent(ev.get('target', 0), FOREIGN)
        if tgt is None:
            return set(), 'external:none', {'st': 'skip'}
        x = tgt.obj
        op = str(ev.get('op'))
        i, v = ev.get('i', 0), ev.get('v', 0)
        i = i if isinstance(i, int) else 0
        v = v if isinstance(v, int) else 0
        if tgt.route == 'tobitarray':
            self.probe('external_mutation_of_tobitarray_result')
        by_serial = {e.serial: e for e in self.pool}
        if any(tgt.serial in e.parents for e in self.pool):
            self.probe('external_mutation_of_source_buffer')

        def go():
            n = len(x)
            if tgt.kind == 'bitarray':
                if op == 'flip' and n:
                    x.invert(i % n)
                elif op == 'append':
                    x.append(v & 1)
                elif op == 'clear':
                    x.clear()
                elif op == 'setall':
                    x.setall(v & 1)
                elif op == 'extend':
                    x.extend('101')
                elif op == 'pop' and n:
                    x.pop()
            elif tgt.kind == 'bytearray':
                if op == 'flip' and n:
                    x[i % n] ^= 0xFF
                elif op == 'append':
                    x.append(v & 255)
                elif op == 'clear':
                    x.clear()
                elif op == 'setall' and n:
                    x[:] = bytes([v & 255]) * n
                elif op == 'extend':
                    x.extend(b'\xaa')
                elif op == 'pop' and n:
                    x.pop()
            elif tgt.kind == 'memoryview':
                if n and not x.readonly:
                    x[i % n] = (x[i % n] ^ 0xFF) if op != 'setall' else (v & 255)
            elif tgt.kind == 'array':
                if op == 'flip' and n:
                    x[i % n] ^= 0xFF
                elif op in ('append', 'extend'):
                    x.append(v & 255)
                elif op == 'clear':
                    del x[:]
                elif op == 'setall' and n:
                    for j in range(n):
                        x[j] = v & 255
                elif op == 'pop' and n:
                    x.pop()
        st, r = call(go)
        self.fault('external_actor_mutation')
        self._after_mutation(tgt)
        return {tgt.serial} | tgt.coupled, f'external:{tgt.kind}.{op}', {'st': st}

    # ---- probe every public member of an immutable object -------------------------------------------------
    def ev_probe_immutable(self, ev):
        tgt = self._bits_ent(ev.get('target', 0), IMMUTABLE)
        if tgt is None:
            return set(), 'probe:none', {'st': 'skip'}
        x = tgt.obj
        name = str(ev.get('member', 'copy'))
        args = ev.get('args', [])
        args = args if isinstance(args, list) else []
        self.probe('immutable_member_called')
        sink = io.StringIO()

        def go():
            if name.startswith('_'):
                return None
            if ev.get('assign'):
                setattr(x, name, args[0] if args else 0)
                return None
            attr = getattr(x, name)
            if callable(attr):
                if name == 'pp':
                    return attr(stream=sink)
                if name == 'tofile':
                    return attr(io.BytesIO())
                r = attr(*args[:3])
                if hasattr(r, '__next__'):
                    r = [y for _, y in zip(range(50), r)]
                return r
            return attr
        st, r = call(go)
        # The object itself must be unchanged too: NOTHING is exempt (pos may move; it is not part of the value)
        label = f'probe:{tgt.kind}.{name}{"=" if ev.get("assign") else ""}'
        return set(), label, {'st': st, 'exc': kernel.exc_name(r) if st == 'exc' else None}

    # ---- generator steps -------------------------------------------------------------------------------------
    def ev_step(self, ev):
        gens = [e for e in self.pool if e.kind == 'gen']
        if not gens:
            return set(), 'step:none', {'st': 'skip'}
        e = gens[int(ev.get('target', 0)) % len(gens)]
        out = []
        bad = None
        for _ in range(max(1, min(int(ev.get('times', 1)) if isinstance(ev.get('times', 1), int) else 1, 8))):
            st, v = call(next, e.obj)
            if st == 'exc' and isinstance(v, StopIteration):
                got = 'STOP'
            elif st == 'exc':
                got = {'exc': kernel.exc_name(v)}
            else:
                got = canon(v)
            want = e.gen_expected[e.gen_i] if e.gen_i < len(e.gen_expected) else 'STOP'
            if e.gen_i > 300:
                break
            e.gen_i += 1
            out.append(got if not isinstance(got, dict) or len(kernel.jdump(got)) < 80 else 'item')
            src = next((p for p in self.pool if p.serial == e.gen_src), None)
            if e.stale:
                self.probe('generator_stepped_after_mutation')
                continue          # the source was legitimately mutated: no verdict
            if any(True for p in self.pool if p.kind in MUTABLE):
                pass
            if got != want and bad is None:
                bad = (got, want)
            if got == 'STOP':
                break
        incs_label = f'step:{e.route}'
        if bad is not None:
            # reported through the common path: mark by making the generator stale and raising an incident here
            self._pending = self.inc(f'generator|{e.route}|yielded-other-than-its-shadow', got=_short(bad[0]), want=_short(bad[1]))
            e.stale = True
        return set(), incs_label, {'st': 'ok', 'items': out}

    def ev_cache_clear(self, ev):
        self.R.clear_caches()
        self.fault('cache_clear')
        return set(), 'cache_clear', {'st': 'ok'}

    # override to deliver the pending generator incident
    def _check_all_wrapper(self):
        pass

    def simplify(self, ev):
        return kernel.simplify_generic(ev)


# deliver pending incidents created inside event handlers
_orig_apply = EAlias.apply


def _apply(self, ev):
    self._pending = None
    obs, incs = _orig_apply(self, ev)
    if getattr(self, '_pending', None) is not None:
        incs = list(incs) + [self._pending]
        self._pending = None
    return obs, incs


EAlias.apply = _apply


def _literal(bits):
    if not bits:
        return ''
    if len(bits) % 4 == 0:
        return '0x' + format(int(bits, 2), f'0{len(bits) // 4}x')
    return '0b' + bits


def _short(o):
    s = kernel.jdump(o)
    return o if len(s) < 200 else {'digest': kernel.digest(o)[:16], 'head': s[:120]}
