"""E-ARRAY / C14 - bitstring.Array behaves as a Python list of fixed-width items over one contiguous bit buffer.

World: one Array per run.  Reference model: (dtype, items: list of w-bit strings, trailing: str of bits).  Item
encodings/decodings come from the library's own Dtype.build / Dtype.parse (C14 is about list / offset arithmetic,
not about encodings); everything else - index arithmetic, slicing, promotion, which operations refuse trailing
bits - is modelled independently with Python lists.  DESIGN 4/C14, 5.3.
"""
from __future__ import annotations

import array
import copy
import io
import operator
import struct
import sys

from .. import kernel, loader
from ..envs import SimFS, SimWriter, FaultyIterable, InjectedProducerFault, bits_to_bytes, bytes_to_bits
from ..kernel import Engine, call, exc_is, exc_name

LE = sys.byteorder == 'little'
CHECK_DEEPCOPY = True      # copy.deepcopy(Array) is treated as part of "copy agrees with the list model"


# ---------------------------------------------------------------------------------------------------------
# dtype table (the model's own knowledge: width, numeric class, signedness, canonical identity)
# ---------------------------------------------------------------------------------------------------------

class DT:
    __slots__ = ('key', 'name', 'w', 'kind', 'cls', 'signed', 'sem', 'unit')

    def __init__(self, key, name, w, kind, cls, signed, endian, unit=1):
        self.key = key          # the string handed to Array(...)
        self.name = name        # the library's canonical dtype name (identity of a dtype = (name, w))
        self.w = w              # item width in bits
        self.kind = kind        # u i f bf p3 p4 e4m3 e5m2 e3m2 e2m3 e2m1 mxint hex bin oct bool bytes bits
        self.cls = cls          # 'int' | 'float' | 'other'
        self.signed = signed
        self.unit = unit
        eff = 'be' if w <= 8 else endian
        self.sem = (kind, eff, w)   # two dtypes with the same sem decode every bit pattern identically

    @property
    def ident(self):
        return (self.name, self.w)


def _build_table():
    T = {}
    ne = 'le' if LE else 'be'

    def add(key, name, w, kind, cls, signed, endian='be', unit=1):
        T[key] = DT(key, name, w, kind, cls, signed, endian, unit)

    for n in range(1, 71):
        add(f'uint{n}', 'uint', n, 'u', 'int', False)
        add(f'int{n}', 'int', n, 'i', 'int', True)
    for n in range(8, 65, 8):
        for e in ('le', 'be', 'ne'):
            real = ne if e == 'ne' else e
            add(f'uint{e}{n}', 'uint' + real, n, 'u', 'int', False, real)
            add(f'int{e}{n}', 'int' + real, n, 'i', 'int', True, real)
    for n in range(4, 33, 4):
        add(f'hex{n}', 'hex', n, 'hex', 'other', False)
    for n in range(1, 17):
        add(f'bin{n}', 'bin', n, 'bin', 'other', False)
    for n in range(3, 25, 3):
        add(f'oct{n}', 'oct', n, 'oct', 'other', False)
    add('bool', 'bool', 1, 'bool', 'int', False)
    for n in (16, 32, 64):
        add(f'float{n}', 'float', n, 'f', 'float', True)
        add(f'floatbe{n}', 'float', n, 'f', 'float', True)
        add(f'floatle{n}', 'floatle', n, 'f', 'float', True, 'le')
        add(f'floatne{n}', 'floatle' if LE else 'float', n, 'f', 'float', True, ne)
    add('bfloat', 'bfloat', 16, 'bf', 'float', True)
    add('bfloatbe', 'bfloat', 16, 'bf', 'float', True)
    add('bfloatle', 'bfloatle', 16, 'bf', 'float', True, 'le')
    add('bfloatne', 'bfloatle' if LE else 'bfloat', 16, 'bf', 'float', True, ne)
    for key, name, w, kind in (('p3binary8', 'p3binary', 8, 'p3'), ('p4binary8', 'p4binary', 8, 'p4'),
                               ('p3binary', 'p3binary', 8, 'p3'), ('p4binary', 'p4binary', 8, 'p4'),
                               ('e4m3mxfp', 'e4m3mxfp', 8, 'e4m3'), ('e5m2mxfp', 'e5m2mxfp', 8, 'e5m2'),
                               ('e3m2mxfp', 'e3m2mxfp', 6, 'e3m2'), ('e2m3mxfp', 'e2m3mxfp', 6, 'e2m3'),
                               ('e2m1mxfp', 'e2m1mxfp', 4, 'e2m1'), ('mxint', 'mxint', 8, 'mxint')):
        add(key, name, w, kind, 'float', True)
    for n in range(1, 5):
        add(f'bytes{n}', 'bytes', 8 * n, 'bytes', 'other', False, unit=8)
    for n in range(1, 25):
        add(f'bits{n}', 'bits', n, 'bits', 'other', False)
    # struct codes: the documented table ('>' big, '<' little, '=' and '@' native; standard sizes)
    sizes = {'b': 8, 'B': 8, 'h': 16, 'H': 16, 'l': 32, 'L': 32, 'i': 32, 'I': 32, 'q': 64, 'Q': 64, 'e': 16, 'f': 32, 'd': 64}
    for p in '><=@':
        e = {'>': 'be', '<': 'le'}.get(p, ne)
        for c in 'bBhHlLiIqQefd':
            w = sizes[c]
            if c in 'efd':
                add(p + c, 'float' if e == 'be' else 'floatle', w, 'f', 'float', True, e)
            elif w == 8:
                add(p + c, 'int' if c == 'b' else 'uint', 8, 'i' if c == 'b' else 'u', 'int', c == 'b')
            else:
                sg = c.islower()
                add(p + c, ('int' if sg else 'uint') + e, w, 'i' if sg else 'u', 'int', sg, e)
    return T


TABLE = _build_table()
KEYS = sorted(TABLE)
INVALID_DTYPES = ('penguin', 'uint', 'hex', 'ue', 'bytes', 'hex3', 'oct4', 'uintle12', 'float17', 'bfloat8', 'B', 'b')

_INT_W = (1, 2, 3, 4, 5, 7, 8, 9, 12, 15, 16, 17, 24, 31, 32, 33, 63, 64, 65, 70)


def pick_dtype(g, numeric=None):
    """Draw a dtype key; numeric=True restricts to int/float dtypes, False to the others."""
    for _ in range(20):
        r = g.r.random()
        if r < 0.30:
            n = g.pick(_INT_W) if g.chance(0.7) else g.int(1, 70)
            key = g.pick(('uint', 'int')) + str(n)
        elif r < 0.40:
            key = g.pick(('uint', 'int')) + g.pick(('le', 'be', 'ne')) + str(8 * g.int(1, 8))
        elif r < 0.48:
            key = g.pick(('hex', 'bin', 'oct'))
            key += str({'hex': 4 * g.int(1, 8), 'bin': g.int(1, 16), 'oct': 3 * g.int(1, 8)}[key])
        elif r < 0.52:
            key = 'bool'
        elif r < 0.64:
            key = g.pick(('float', 'floatle', 'floatbe', 'floatne')) + str(g.pick((16, 32, 64)))
        elif r < 0.68:
            key = g.pick(('bfloat', 'bfloatle', 'bfloatbe', 'bfloatne'))
        elif r < 0.80:
            key = g.pick(('p3binary8', 'p4binary8', 'p3binary', 'p4binary', 'e4m3mxfp', 'e5m2mxfp', 'e3m2mxfp',
                          'e2m3mxfp', 'e2m1mxfp', 'mxint'))
        elif r < 0.85:
            key = 'bytes' + str(g.int(1, 4))
        elif r < 0.90:
            key = 'bits' + str(g.pick((1, 3, 5, 8, 12, 17, 24)))
        else:
            key = g.pick('><=@') + g.pick('bBhHlLiIqQefd')
        d = TABLE[key]
        if numeric is None or (d.cls != 'other') == numeric:
            return key
    return 'uint8' if numeric in (None, True) else 'hex8'


def promote(d1: DT, d2: DT) -> DT:
    """The documented promotion: floats beat ints, signed beats unsigned, longer beats shorter, tie -> first."""
    f1, f2 = d1.cls == 'float', d2.cls == 'float'
    if f1 != f2:
        return d1 if f1 else d2
    if not f1 and d1.signed != d2.signed:
        return d1 if d1.signed else d2
    return d2 if d2.w > d1.w else d1


# ---------------------------------------------------------------------------------------------------------
# values <-> JSON
# ---------------------------------------------------------------------------------------------------------

def jval(v):
    if v is None or isinstance(v, (bool, str, int)):
        return v
    if isinstance(v, float):
        return {'f': repr(v)}
    if isinstance(v, (bytes, bytearray)):
        return {'b': bytes(v).hex()}
    if kernel.is_bits(v):
        return {'bits': kernel.safe_bin(v)}
    return {'repr': type(v).__name__}


def same(a, b):
    """Value identity: floats by bit pattern with NaN == NaN; bitstrings by content; otherwise type and ==."""
    if kernel.is_bits(a) or kernel.is_bits(b):
        return kernel.is_bits(a) and kernel.is_bits(b) and kernel.safe_bin(a) == kernel.safe_bin(b)
    if type(a) is not type(b):
        return False
    if isinstance(a, float):
        if a != a or b != b:
            return a != a and b != b
        return struct.pack('>d', a) == struct.pack('>d', b)
    return a == b


def same_list(xs, ys):
    return isinstance(xs, list) and len(xs) == len(ys) and all(same(x, y) for x, y in zip(xs, ys))


def is_nan(v):
    return isinstance(v, float) and v != v


def split(bits, w):
    n = len(bits) // w
    return [bits[i * w:(i + 1) * w] for i in range(n)], bits[n * w:]


def _isint(x):
    return isinstance(x, int) and not isinstance(x, bool)


PYOP = {'add': operator.add, 'sub': operator.sub, 'mul': operator.mul, 'truediv': operator.truediv,
        'floordiv': operator.floordiv, 'mod': operator.mod, 'lshift': operator.lshift, 'rshift': operator.rshift,
        'lt': operator.lt, 'le': operator.le, 'gt': operator.gt, 'ge': operator.ge, 'eq': operator.eq, 'ne': operator.ne,
        'neg': operator.neg, 'abs': operator.abs, 'and': operator.and_, 'or': operator.or_, 'xor': operator.xor}
IOP = {'add': operator.iadd, 'sub': operator.isub, 'mul': operator.imul, 'truediv': operator.itruediv,
       'floordiv': operator.ifloordiv, 'mod': operator.imod, 'lshift': operator.ilshift, 'rshift': operator.irshift,
       'and': operator.iand, 'or': operator.ior, 'xor': operator.ixor}
ARITH = ('add', 'sub', 'mul', 'truediv', 'floordiv', 'mod', 'lshift', 'rshift')
CMP = ('lt', 'le', 'gt', 'ge', 'eq', 'ne')
BITWISE = ('and', 'or', 'xor')
SYM = {'add': '+', 'sub': '-', 'mul': '*', 'truediv': '/', 'floordiv': '//', 'mod': '%', 'lshift': '<<', 'rshift': '>>',
       'lt': '<', 'le': '<=', 'gt': '>', 'ge': '>=', 'eq': '==', 'ne': '!=', 'and': '&', 'or': '|', 'xor': '^'}
AA_CODES = 'bBhHiIlLqQfd'


def aa_info(tc):
    """(kind, width in bits) of an array.array typecode on THIS platform."""
    kind = 'f' if tc in 'fd' else ('i' if tc.islower() else 'u')
    return kind, array.array(tc).itemsize * 8


# ---------------------------------------------------------------------------------------------------------
# the engine
# ---------------------------------------------------------------------------------------------------------

# events that hand raw bits or bytes in or out (their meaning under lsb0 is C12 / C17 territory): msb0 runs only
LSB0_SKIP = ('tobytes', 'tofile', 'fromfile', 'ctor', 'set_data', 'byteswap', 'poke_src', 'extend_aa', 'equals')


class EArray(Engine):
    prop = 'C14'
    name = 'E-ARRAY'
    level = 'exploration'
    fault_kinds = ('extend_f', 'setslice_f', 'iop_unfit', 'fromfile', 'cache_clear', 'set_dtype', 'set_data', 'option', 'poke_src')
    mutating_kinds = ('set', 'setslice', 'setslice_f', 'del', 'delslice', 'append', 'extend', 'extend_f', 'insert',
                      'pop', 'reverse', 'set_dtype', 'set_data', 'iop', 'iop_unfit', 'fromfile', 'byteswap')
    rule = ('one Array per run; dtype, initial items and trailing bits drawn in config from the dtype table; each run '
            'is a seeded program of list operations, operators, dtype changes, file I/O and cache clears executed in '
            'lock-step against a (dtype, list of w-bit strings, trailing bits) model.  A run is non-trivial if it has '
            '>= 1 state-changing event AND >= 1 fault/reconfiguration/environment event (faulty producer in extend or '
            'slice assignment, in-place operator with a result that does not fit, fromfile, dtype change, direct '
            'data change, cache clear); distinct = distinct event-list digest.')
    stub_components = ['FaultyIterable (caller-supplied producer that dies at its k-th element)',
                       'SimFS (scratch directory of real files under /dev/shm) / io.BytesIO / SimWriter without fault plan']
    assumptions = ['item encodings/decodings are taken from the library (Dtype.build / Dtype.parse): C14 decides list and '
                   'offset arithmetic, promotion and atomicity, not the numeric correctness of an encoding (C02/C11)',
                   'mxfp_overflow stays at saturate; options.bytealigned is a per-run knob and is flipped by events; a share of the runs execute under options.lsb0, where the list behaviour is the same and only the stored order is mirrored (item i at LSB0 positions [i*w, (i+1)*w)) - events that hand raw bits or bytes in or out are left to the msb0 runs',
                   'element-wise in-place operators may keep or drop trailing bits (DESIGN 5.3)',
                   'native byte order and array.array item sizes are those of the machine running the check']
    expected_probes = ('trailing:item-op', 'iop:first-unfit-at-0', 'iop:first-unfit-in-middle', 'iop:first-unfit-at-last',
                       'extend:producer-fault-fired', 'setslice:producer-fault-fired',
                       # ('extend:bad-value-after-prefix' can no longer fire: extend builds all items before changing anything)
                       'fromfile:short', 'promote:float-beats-int', 'promote:signed-beats-unsigned', 'promote:longer',
                       'promote:tie-first', 'slice:negative-step', 'insert:beyond-end', 'insert:negative',
                       'dtype:reread-changes-len', 'cache_clear', 'dtype:width>64', 'dtype:bytes', 'dtype:struct-code',
                       'iter:lazy-step-after-set', 'extend:array.array-match', 'op:array-operand-ok',
                       'op:does-not-fit', 'setslice:extended', 'setslice:resizing', 'pop:empty')

    def plan(self, tier, base_seed):
        return self.seeded_plan(tier, base_seed, quick=(QUICK_RUNS, 25), thorough=(THOROUGH_RUNS, 50))

    # -------------------------------------------------------------------------------------------------
    def config(self, g, desc):
        key = pick_dtype(g)
        d = TABLE[key]
        n = g.wpick([(0, 1), (1, 2), (2, 3), (3, 4), (4, 3), (5, 2), (6, 1), (8, 1), (11, 0.5)])
        tl = g.int(1, d.w - 1) if (d.w > 1 and g.chance(0.3)) else 0
        focus = g.wpick([('mixed', 4), ('list', 3), ('slices', 2), ('ops', 4), ('io', 1), ('dtype', 1.5), ('faults', 2)])
        return {'dt': key, 'init': g.bits(n * d.w) + g.bits(tl), 'avoid': bool(desc.get('avoid')), 'focus': focus,
                # knob: options.bytealigned is a default for searches in bitstrings and means nothing for an Array
                'bytealigned': g.chance(0.15),
                # knob: the list behaviour of an Array is the same under options.lsb0 (only the stored order of the items is mirrored)
                'lsb0': g.chance(0.15)}

    def start(self, cfg):
        self.R = loader.main()
        self.R.reset()
        self.B = self.R.pkg
        self.cfg = cfg
        self.avoid = bool(cfg.get('avoid'))
        self.focus = cfg.get('focus', 'mixed')
        self.fs = None
        self._D = {}
        self._dec = {}
        self.queue = []
        self.it = None
        self._verified = None
        self._incs = []
        self._op, self._trig = 'start', '-'
        self._src = None
        self.lsb0 = bool(cfg.get('lsb0'))
        if self.lsb0:
            self.B.options.lsb0 = True
            self.probe('option:lsb0')
        if cfg.get('bytealigned'):
            self.B.options.bytealigned = True
            self.probe('option:bytealigned')
        key = cfg.get('dt')
        self.dt = TABLE[key] if key in TABLE else TABLE['uint8']
        init = cfg.get('init', '')
        if not isinstance(init, str) or set(init) - {'0', '1'}:
            init = ''
        self.items, self.trail = split(init, self.dt.w)
        self._resync()
        if self.dt.w > 64:
            self.probe('dtype:width>64')
        if self.dt.kind == 'bytes':
            self.probe('dtype:bytes')
        if self.dt.key[0] in '<>=@':
            self.probe('dtype:struct-code')
        self._verify()
        incs, self._incs = self._incs, []
        return {'dt': str(self.a.dtype), 'n': len(self.items), 'incs': [i.sig for i in incs]}

    def cleanup(self):
        try:
            loader.main().reset_options()
        except Exception:
            pass
        if getattr(self, 'fs', None):
            self.fs.close()
            self.fs = None

    # -- model helpers -------------------------------------------------------------------------------------
    def D(self, key):
        d = self._D.get(key)
        if d is None:
            d = self._D[key] = self.B.Array(key).dtype
        return d

    def bits(self):
        return ''.join(self.items) + self.trail

    def dec(self, dt, chunk):
        k = (dt.key, chunk)
        if k in self._dec:
            return self._dec[k]
        v = self.D(dt.key).parse(self.B.Bits(bin=chunk))
        if len(self._dec) < 4000:
            self._dec[k] = v
        return v

    def vals(self):
        return [self.dec(self.dt, c) for c in self.items]

    def enc(self, dt, v):
        """('ok', w-bit string) or ('exc', exception): the library's own Dtype.build route."""
        st, b = call(self.D(dt.key).build, v)
        if st == 'exc':
            return st, b
        s = kernel.safe_bin(b)
        if len(s) != dt.w:
            return 'exc', ValueError('wrong length')
        return 'ok', s

    def pyval(self, j):
        try:
            if isinstance(j, dict):
                if 'f' in j:
                    return float(j['f'])
                if 'b' in j:
                    return bytes.fromhex(j['b'])
                if 'bits' in j:
                    return self.B.Bits(bin=j['bits'])
                if 'bs' in j:
                    return '0b' + j['bs']
                return None
            if isinstance(j, list):
                return None
            if self.dt.kind == 'bytes' and _isint(j) and j > 4096:
                return None         # bytes(n) allocates n bytes: not executed
            return j
        except Exception:
            return None

    # Under options.lsb0 an Array keeps item i at bit positions [i*w, (i+1)*w) in LSB0 numbering: in stored order the items stand in
    # reverse and the trailing bits come first.  The model stays in list order; these two helpers translate at the boundary.
    def to_model_order(self, real, w):
        if not self.lsb0 or not isinstance(real, str):
            return real
        n = len(real) // w
        trail = real[:len(real) - n * w]
        return ''.join(real[len(real) - (i + 1) * w:len(real) - i * w] for i in range(n)) + trail

    def to_stored_order(self, bits, w):
        if not self.lsb0:
            return bits
        items, trail = split(bits, w)
        return trail + ''.join(reversed(items))

    def mk_array(self, key, bits):
        a = self.B.Array(key)
        a.data = self.B.BitArray(bin=self.to_stored_order(bits, TABLE[key].w if key in TABLE else a.itemsize))
        return a

    def _fs(self):
        if self.fs is None:
            self.fs = SimFS()
        return self.fs

    def _resync(self):
        self.a = self.mk_array(self.dt.key, self.bits())
        self.it = None
        self._verified = None

    # -- signatures / incidents ----------------------------------------------------------------------------
    def tb(self, *tags):
        """Trigger tag: the given narrow tags, else 'trailing-bits' when the Array has any, else '-'."""
        t = [x for x in tags if x and x != '-']
        if not t and self.trail:
            t.append('trailing-bits')
        return '+'.join(t) if t else '-'

    def fail(self, disc, **detail):
        detail.setdefault('dtype', self.dt.key)
        detail.setdefault('model_items', len(self.items))
        detail.setdefault('model_bits', self.bits()[:300])
        self._incs.append(self.inc(f'{self._op}|{self._trig}|{disc}', **detail))

    def want_raise(self, st, val, classes=('ValueError', 'TypeError'), **detail):
        """The call must have raised one of `classes`."""
        if st == 'ok':
            self.fail('should-raise', **detail)
            return False
        if isinstance(val, InjectedProducerFault) and 'InjectedProducerFault' not in classes:
            self.fail('wrong-exception:' + exc_name(val), **detail)
            return False
        if not exc_is(val, *classes):
            self.fail('wrong-exception:' + exc_name(val), msg=str(val)[:200], **detail)
            return False
        return True

    def want_ok(self, st, val, **detail):
        if st != 'ok':
            self.fail('raised:' + exc_name(val), msg=str(val)[:200], **detail)
            return False
        return True

    def _real_bits(self):
        st, b = call(lambda: kernel.safe_bin(self.a.data))
        return self.to_model_order(b, self.dt.w) if st == 'ok' and isinstance(b, str) else None

    def adopt(self, candidates):
        """The statement leaves several outcomes open (DESIGN 5.3, prefix-under-fault): candidates is a list of
        (items, trail); the model adopts the first one whose bits equal the real object's.  Returns its index or -1."""
        real = self._real_bits()
        for i, (items, trail) in enumerate(candidates):
            if real == ''.join(items) + trail:
                self.items, self.trail = list(items), trail
                return i
        return -1

    def _verify(self, force=False):
        """Oracle after every event.  On any incident the Array is rebuilt from the model.  A discrepancy of the
        data is attributed to the event (its op and trigger); discrepancies of the read-only observers
        (len, itemsize/dtype, tolist, trailing_bits) on CORRECT data are attributed to the observer."""
        a = self.a
        if self._incs:
            self._resync()
            return
        want = self.bits()
        real = self._real_bits()
        w = self.dt.w
        if not kernel.is_array(a):
            self.fail('not-an-array', got=type(a).__name__)
        elif real != want:
            self.fail('content-mismatch', got=(real or '')[:300], want=want[:300], got_len=len(real or ''), want_len=len(want))
        else:
            after = self._op
            fam = 'trailing-bits' if self.trail else '-'
            st, n = call(len, a)
            if st != 'ok' or n != len(self.items):
                self._op, self._trig = 'oracle:len', fam
                self.fail('wrong-return', got=kernel.canon(n), want=len(self.items), after=after)
            st, isz = call(lambda: a.itemsize)
            st2, dd = call(lambda: (a.dtype.name, a.dtype.bitlength))
            if st != 'ok' or isz != w or st2 != 'ok' or dd != self.dt.ident:
                self._op, self._trig = 'oracle:dtype', fam
                self.fail('wrong-return', itemsize=kernel.canon(isz), got=kernel.canon(dd), want=list(self.dt.ident), after=after)
            key = (self.dt.key, want)
            if force or self._verified != key:
                st, tl = call(a.tolist)
                wl = self.vals()
                if st != 'ok' or not same_list(tl, wl):
                    self._op, self._trig = 'oracle:tolist', fam
                    self.fail('wrong-return', got=kernel.canon(tl), want=kernel.canon(wl), after=after)
                st, t = call(lambda: kernel.safe_bin(a.trailing_bits))
                if st != 'ok' or t != self.trail:
                    self._op, self._trig = 'oracle:trailing_bits', fam
                    self.fail('wrong-return', got=kernel.canon(t), want=self.trail, after=after)
                self._verified = key
        if self._incs:
            self._resync()
        if self.it is not None and (self.it['arr'] is not self.a or self.it['dt'] != self.dt.key or self.it['n'] != len(self.items)):
            self.it = None

    # -------------------------------------------------------------------------------------------------
    def apply(self, ev):
        k = ev.get('k')
        fn = getattr(self, 'ev_' + str(k), None)
        if fn is None:
            return {'skip': str(k)}, []
        if getattr(self, 'lsb0', False) and k in LSB0_SKIP:
            return {'skip': 'byte-level event: msb0 runs only'}, []
        self._incs = []
        self._op, self._trig = str(k), self.tb()
        n0, t0 = len(self.items), bool(self.trail)
        obs = fn(ev)
        if not isinstance(obs, dict):
            obs = {'r': obs}
        if 'skip' not in obs:
            self._verify(force=(k == 'cache_clear'))
        incs, self._incs = self._incs, []
        obs['n'] = len(self.items)
        obs['t'] = len(self.trail)
        w = self.dt.w
        self._reach(True, (self.dt.kind, 0 if w < 8 else 1 if w == 8 else 2 if w < 64 else 3 if w == 64 else 4,
                           min(len(self.items), 4), bool(self.trail)))
        self._reach(False, (k, obs.get('st', '-'), obs.get('e', '-'), t0, self.dt.cls, min(n0, 2)))
        return obs, incs

    _REACH = {}

    def _reach(self, is_state, t):
        """self.state / self.transition with the JSON form memoised (same strings, a fraction of the cost)."""
        j = self._REACH.get(t)
        if j is None:
            j = self._REACH[t] = kernel.jdump(t)
        (self.rec.states if is_state else self.rec.transitions).add(j)

    def simplify(self, ev):
        return kernel.simplify_generic(ev)

    @staticmethod
    def _int(ev, key, default=0):
        v = ev.get(key, default)
        return v if _isint(v) else default

    @staticmethod
    def _optint(ev, key):
        v = ev.get(key)
        return v if _isint(v) else None

    @staticmethod
    def _obs(st, val, r=None):
        o = {'st': st}
        if st == 'exc':
            o['e'] = exc_name(val)
        elif r is not None:
            o['r'] = r
        return o

    # =================================================================================================
    # list operations
    # =================================================================================================
    def ev_len(self, ev):
        st, n = call(len, self.a)
        if self.want_ok(st, n) and n != len(self.items):
            self.fail('wrong-return', got=kernel.canon(n), want=len(self.items))
        return self._obs(st, n, kernel.canon(n))

    def ev_get(self, ev):
        i = self._int(ev, 'i')
        n = len(self.items)
        self._op, self._trig = 'getitem', self.tb('negative-index' if i < 0 else '-')
        st, v = call(lambda: self.a[i])
        if -n <= i < n:
            if self.trail:
                self.probe('trailing:item-op')
            want = self.dec(self.dt, self.items[i])
            if self.want_ok(st, v, i=i) and not same(v, want):
                self.fail('wrong-return', i=i, got=kernel.canon(v), want=kernel.canon(want))
        else:
            self.want_raise(st, v, ('IndexError',), i=i)
        return self._obs(st, v, kernel.canon(v))

    def _slice(self, ev):
        a, b, c = self._optint(ev, 'a'), self._optint(ev, 'b'), self._optint(ev, 'c')
        return slice(a, b, c), [a, b, c]

    def _slice_tag(self, sl):
        c = sl.step
        if c == 0:
            return 'zero-step'
        if c is not None and c < 0:
            self.probe('slice:negative-step')
            return 'negative-step'
        return 'step>1' if c not in (None, 1) else '-'

    def ev_getslice(self, ev):
        sl, abc = self._slice(ev)
        self._op, self._trig = 'getslice', self.tb(self._slice_tag(sl))
        st, r = call(lambda: self.a[sl])
        if sl.step == 0:
            self.want_raise(st, r, ('ValueError',), slice=abc)
            return self._obs(st, r)
        want = self.items[sl]
        if self.want_ok(st, r, slice=abc):
            self._check_result_array(r, self.dt, want, slice=abc)
        return self._obs(st, r, len(want))

    def _check_result_array(self, r, dt, want_items, allow_trailing=True, nan_ok=False, **detail):
        """A returned Array: its dtype, its items; trailing bits of a result are none (or the source's)."""
        if not kernel.is_array(r):
            self.fail('wrong-return-type', got=type(r).__name__, **detail)
            return False
        st, dd = call(lambda: (r.dtype.name, r.dtype.bitlength))
        if st != 'ok' or dd != dt.ident:
            self.fail('wrong-result-dtype', got=kernel.canon(dd), want=list(dt.ident), **detail)
            return False
        st, bits = call(lambda: self.to_model_order(kernel.safe_bin(r.data), dt.w))
        want = ''.join(want_items)
        if st == 'ok' and (bits == want or (allow_trailing and self.trail and bits == want + self.trail)):
            return True
        if st == 'ok' and nan_ok:
            got_items, tr = split(bits, dt.w)
            if len(got_items) == len(want_items) and tr in ('', self.trail) and all(
                    x == y or (is_nan(self.dec(dt, x)) and is_nan(self.dec(dt, y))) for x, y in zip(got_items, want_items)):
                return True
        self.fail('wrong-result', got=kernel.canon(bits)[:300] if isinstance(bits, str) else kernel.canon(bits), want=want[:300],
                  result_dtype=dt.key, **detail)
        return False

    def _encode_all(self, vals, dt=None):
        dt = dt or self.dt
        encs, bad, excs = [], None, []
        for k, v in enumerate(vals):
            st, e = self.enc(dt, v)
            if st == 'exc':
                if bad is None:
                    bad = k
                excs.append(e)
                encs.append(None)
            else:
                encs.append(e)
        return encs, bad, excs

    @staticmethod
    def _classes(excs, *base):
        return tuple(sorted(set(base) | {exc_name(e) for e in excs}))

    def ev_set(self, ev):
        i = self._int(ev, 'i')
        v = self.pyval(ev.get('v'))
        n = len(self.items)
        self._op, self._trig = 'setitem', self.tb('negative-index' if i < 0 else '-')
        est, e = self.enc(self.dt, v)

        def f():
            self.a[i] = v
        st, r = call(f)
        inrange = -n <= i < n
        if inrange and est == 'ok':
            if self.trail:
                self.probe('trailing:item-op')
            if self.want_ok(st, r, i=i, v=ev.get('v')):
                self.items[i] = e
        elif inrange:
            self.want_raise(st, r, self._classes([e], 'ValueError', 'TypeError'), i=i, v=ev.get('v'))
        elif est == 'ok':
            self.want_raise(st, r, ('IndexError',), i=i)
        else:
            self.want_raise(st, r, self._classes([e], 'ValueError', 'TypeError', 'IndexError'), i=i)
        return self._obs(st, r)

    def _source(self, ev, vals):
        """Build the producer for extend / slice assignment.  Returns (object, FaultyIterable or None)."""
        src = ev.get('src', 'list')
        if ev.get('k') in ('extend_f', 'setslice_f'):
            fa = self._optint(ev, 'fail_at')
            fi = FaultyIterable(vals, 0 if fa is None or fa < 0 else fa)
            return fi, fi
        if src == 'tuple':
            return tuple(vals), None
        if src == 'gen':
            return (x for x in vals), None
        return list(vals), None

    def _vals_of(self, ev):
        """The python values the producer will yield (for src 'array': the items of another Array of this dtype)."""
        if ev.get('src') == 'array' and ev.get('k') == 'setslice':
            bits = ev.get('bin', '')
            bits = bits if isinstance(bits, str) and not (set(bits) - {'0', '1'}) else ''
            its, _ = split(bits, self.dt.w)
            return [self.dec(self.dt, c) for c in its], bits
        vs = ev.get('vals', [])
        return [self.pyval(j) for j in (vs if isinstance(vs, list) else [])], None

    def ev_setslice(self, ev):
        sl, abc = self._slice(ev)
        vals, arrbits = self._vals_of(ev)
        self._op = 'setslice'
        self._trig = self.tb(self._slice_tag(sl), 'faulty-producer' if ev.get('k') == 'setslice_f' else '-')
        encs, bad, excs = self._encode_all(vals)
        if arrbits is not None:
            value, fi = self.mk_array(self.dt.key, arrbits), None
        else:
            value, fi = self._source(ev, vals)

        def f():
            self.a[sl] = value
        st, r = call(f)
        detail = {'slice': abc, 'nvals': len(vals), 'src': ev.get('src', 'list'), 'bad_at': bad}
        if sl.step == 0:
            self.want_raise(st, r, ('ValueError',), **detail)
            return self._obs(st, r)
        old = list(self.items)
        stepped = sl.step not in (None, 1)
        idx = list(range(*sl.indices(len(old))))
        fired = fi is not None and fi.fired
        if fired:
            self.fault('producer_died_in_slice_assignment')
            self.probe('setslice:producer-fault-fired')
            limit = min(fi.fail_at, len(vals))
        if stepped:
            self.probe('setslice:extended')
        good_prefix = limit if fired else len(vals)
        if bad is not None:
            good_prefix = min(good_prefix, bad)
        size_bad = stepped and len(vals) != len(idx)
        must_raise = fired or bad is not None or size_bad
        if not must_raise:
            new = list(old)
            new[sl] = encs
            if self.want_ok(st, r, **detail):
                self.items = new
                if len(new) != len(old):
                    self.probe('setslice:resizing')
                if self.trail:
                    self.probe('trailing:item-op')
            return self._obs(st, r)
        classes = set()
        if fired:
            classes.add('InjectedProducerFault')
        if bad is not None:
            classes |= set(self._classes(excs, 'ValueError', 'TypeError'))
        if size_bad:
            classes.add('ValueError')
        self.want_raise(st, r, tuple(sorted(classes)), **detail)
        # what was applied must be a prefix (the statement promises atomicity only for in-place operators)
        cands = [(old, self.trail)]
        for j in range(1, good_prefix + 1):
            new = list(old)
            if stepped:
                if j > len(idx):
                    break
                for p, e in zip(idx[:j], encs[:j]):
                    new[p] = e
            else:
                new[sl] = encs[:j]
            cands.append((new, self.trail))
        which = self.adopt(cands)
        if which < 0:
            self.fail('not-a-prefix', got=(self._real_bits() or '')[:300], **detail)
        elif which > 0:
            self.probe('setslice:prefix-applied-before-failure')
        return self._obs(st, r)

    ev_setslice_f = ev_setslice

    def ev_del(self, ev):
        i = self._int(ev, 'i')
        n = len(self.items)
        self._op, self._trig = 'delitem', self.tb('negative-index' if i < 0 else '-')

        def f():
            del self.a[i]
        st, r = call(f)
        if -n <= i < n:
            if self.trail:
                self.probe('trailing:item-op')
            if self.want_ok(st, r, i=i):
                del self.items[i]
        else:
            self.want_raise(st, r, ('IndexError',), i=i)
        return self._obs(st, r)

    def ev_delslice(self, ev):
        sl, abc = self._slice(ev)
        self._op, self._trig = 'delslice', self.tb(self._slice_tag(sl))

        def f():
            del self.a[sl]
        st, r = call(f)
        if sl.step == 0:
            self.want_raise(st, r, ('ValueError',), slice=abc)
        elif self.want_ok(st, r, slice=abc):
            if self.trail and self.items[sl]:
                self.probe('trailing:item-op')
            del self.items[sl]
        return self._obs(st, r)

    def ev_append(self, ev):
        v = self.pyval(ev.get('v'))
        self._op = 'append'
        est, e = self.enc(self.dt, v)
        st, r = call(self.a.append, v)
        if self.trail:
            self.want_raise(st, r, self._classes([e] if est == 'exc' else [], 'ValueError'), v=ev.get('v'))
        elif est == 'exc':
            self.want_raise(st, r, self._classes([e], 'ValueError', 'TypeError'), v=ev.get('v'))
        elif self.want_ok(st, r, v=ev.get('v')):
            self.items.append(e)
        return self._obs(st, r)

    def ev_insert(self, ev):
        i = self._int(ev, 'i')
        v = self.pyval(ev.get('v'))
        n = len(self.items)
        self._op = 'insert'
        if i < -n:
            self._trig = 'negative-index-below-start'
        elif i < 0:
            self._trig = 'negative-index+trailing-bits' if self.trail else 'negative-index'
        else:
            self._trig = self.tb('beyond-end' if i > n else '-')
        est, e = self.enc(self.dt, v)
        st, r = call(self.a.insert, i, v)
        if est == 'exc':
            self.want_raise(st, r, self._classes([e], 'ValueError', 'TypeError'), i=i, v=ev.get('v'))
        else:
            if i > n:
                self.probe('insert:beyond-end')
            if i < 0:
                self.probe('insert:negative')
            if self.trail:
                self.probe('trailing:item-op')
            if self.want_ok(st, r, i=i, v=ev.get('v')):
                self.items.insert(i, e)
        return self._obs(st, r)

    def ev_pop(self, ev):
        i = self._optint(ev, 'i')
        n = len(self.items)
        self._op, self._trig = 'pop', self.tb('default' if i is None else ('negative-index' if i < 0 else '-'))
        st, v = call(self.a.pop) if i is None else call(self.a.pop, i)
        j = -1 if i is None else i
        if n == 0:
            self.probe('pop:empty')
        if -n <= j < n:
            if self.trail:
                self.probe('trailing:item-op')
            want = self.dec(self.dt, self.items[j])
            if self.want_ok(st, v, i=i):
                if not same(v, want):
                    self.fail('wrong-return', i=i, got=kernel.canon(v), want=kernel.canon(want))
                del self.items[j]
        else:
            self.want_raise(st, v, ('IndexError',), i=i)
        return self._obs(st, v, kernel.canon(v))

    def ev_reverse(self, ev):
        self._op = 'reverse'
        st, r = call(self.a.reverse)
        if self.trail:
            self.want_raise(st, r, ('ValueError',))
        elif self.want_ok(st, r):
            self.items.reverse()
        return self._obs(st, r)

    def ev_count(self, ev):
        v = self.pyval(ev.get('v'))
        self._op = 'count'
        nonnum = isinstance(v, (str, bytes)) or kernel.is_bits(v)
        self._trig = self.tb('nonnumeric-dtype' if self.dt.cls == 'other' else 'nonnumeric-value' if nonnum else 'nan' if is_nan(v) else '-')
        if _isint(v) and abs(v) > 2 ** 200:
            return {'skip': 'huge'}
        vs = self.vals()
        if is_nan(v):
            want = sum(1 for x in vs if is_nan(x))     # documented: nan counts the NaN items
        else:
            st, want = call(lambda: sum(1 for x in vs if x == v))
            if st != 'ok':
                return {'skip': 'model == raised'}
        st, r = call(self.a.count, v)
        if self.want_ok(st, r, v=ev.get('v')) and (r != want or isinstance(r, bool)):
            self.fail('wrong-return', got=kernel.canon(r), want=want, v=ev.get('v'))
        return self._obs(st, r, kernel.canon(r))

    def ev_contains(self, ev):
        v = self.pyval(ev.get('v'))
        self._op = 'contains'
        self._trig = self.tb('nonnumeric-dtype' if self.dt.cls == 'other' else '-')
        if is_nan(v):
            return {'skip': 'nan'}
        vs = self.vals()
        st, want = call(lambda: any(x == v for x in vs))
        if st != 'ok':
            return {'skip': 'model == raised'}
        st, r = call(lambda: v in self.a)
        if self.want_ok(st, r, v=ev.get('v')) and r is not bool(want):
            self.fail('wrong-return', got=kernel.canon(r), want=bool(want), v=ev.get('v'))
        return self._obs(st, r, kernel.canon(r))

    def ev_tolist(self, ev):
        self._op = 'tolist'
        st, r = call(self.a.tolist)
        want = self.vals()
        if self.want_ok(st, r) and not same_list(r, want):
            self.fail('wrong-return', got=kernel.canon(r), want=kernel.canon(want))
        return self._obs(st, r, kernel.canon(r))

    def ev_iter(self, ev):
        how = ev.get('how', 'list')
        self._op = 'iter'
        fn = {'tuple': lambda: list(tuple(self.a)), 'for': lambda: [x for x in self.a],
              'reversed': lambda: list(reversed(self.a))}.get(how, lambda: list(self.a))
        st, r = call(fn)
        want = self.vals()
        if how == 'reversed':
            # reversed() needs __reversed__ or the sequence protocol (__len__ + __getitem__), which Array has
            self._trig = self.tb('reversed')
            want = want[::-1]
        if self.want_ok(st, r, how=how) and not same_list(r, want):
            self.fail('wrong-return', how=how, got=kernel.canon(r), want=kernel.canon(want))
        return self._obs(st, r, len(want))

    def ev_iter_start(self, ev):
        self._op = 'iter'
        st, it = call(iter, self.a)
        if self.want_ok(st, it):
            self.it = {'it': it, 'arr': self.a, 'dt': self.dt.key, 'n': len(self.items), 'idx': 0, 'bits': self.bits()}
        return self._obs(st, it)

    def ev_iter_next(self, ev):
        self._op, self._trig = 'iter', self.tb('lazy-step')
        it = self.it
        if it is None:
            return {'skip': 'no live iterator'}
        st, v = call(next, it['it'])
        if it['idx'] < it['n']:
            want = self.dec(self.dt, self.items[it['idx']])
            if it['bits'] != self.bits():
                self.probe('iter:lazy-step-after-set')
            if self.want_ok(st, v, idx=it['idx']) and not same(v, want):
                self.fail('wrong-return', idx=it['idx'], got=kernel.canon(v), want=kernel.canon(want))
            it['idx'] += 1
        else:
            if st != 'exc' or not isinstance(v, StopIteration):
                self.fail('no-StopIteration', got=kernel.canon(v))
            self.it = None
        return self._obs(st, v, kernel.canon(v))

    def ev_props(self, ev):
        self._op = 'props'
        a = self.a
        st, r = call(lambda: (self.to_model_order(a.data.bin, a.itemsize), a.trailing_bits.bin, a.itemsize, len(a.data)))
        want = (self.bits(), self.trail, self.dt.w, len(self.bits()))
        if self.want_ok(st, r) and r != want:
            self.fail('wrong-return', got=kernel.canon(r), want=kernel.canon(want))
        self._verified = None
        return self._obs(st, r)

    # =================================================================================================
    # extend / equals / copy / dtype / data
    # =================================================================================================
    def _aa(self, ev):
        """array.array operand of an event: (array, kind, width) or None."""
        tc = ev.get('tc')
        if not isinstance(tc, str) or len(tc) != 1 or tc not in AA_CODES:
            return None
        vs = ev.get('vals', [])
        vals = [self.pyval(j) for j in (vs if isinstance(vs, list) else [])]
        st, arr = call(array.array, tc, vals)
        if st != 'ok':
            return None
        kind, w = aa_info(tc)
        return arr, kind, w

    def _aa_match(self, kind, w):
        """'strict' (the library's own dtype for this typecode), 'semantic' (decodes identically, other name) or 'no'."""
        d = self.dt
        ne = 'le' if LE else 'be'
        if d.sem != (kind, 'be' if w <= 8 else ne, w):
            return 'no'
        base = {'i': 'int', 'u': 'uint', 'f': 'float'}[kind]
        if w == 8:
            strict = base
        elif kind == 'f':
            strict = 'floatle' if LE else 'float'
        else:
            strict = base + ne
        return 'strict' if d.name == strict else 'semantic'

    def ev_extend(self, ev):
        src = ev.get('src', 'list')
        faulty = ev.get('k') == 'extend_f'
        self._op = 'extend'
        old = list(self.items)
        if src == 'array' and not faulty:
            return self._extend_array(ev, old)
        if src == 'arrayarray' and not faulty:
            if self.lsb0:
                return {'skip': 'raw bytes of an array.array: msb0 runs only'}
            return self._extend_aa(ev, old)
        if src == 'self' and not faulty:
            self._trig = self.tb('self')
            st, r = call(self.a.extend, self.a)
            if self.trail:
                self.want_raise(st, r, ('ValueError',))
            elif self.want_ok(st, r):
                self.items = old + old
            return self._obs(st, r)
        vs = ev.get('vals', [])
        vals = [self.pyval(j) for j in (vs if isinstance(vs, list) else [])]
        self._trig = self.tb('faulty-producer' if faulty else '-')
        encs, bad, excs = self._encode_all(vals)
        value, fi = self._source(ev, vals)
        st, r = call(self.a.extend, value)
        detail = {'src': src, 'nvals': len(vals), 'bad_at': bad}
        fired = fi is not None and fi.fired
        if fired:
            self.fault('producer_died_in_extend')
            self.probe('extend:producer-fault-fired')
        if self.trail:
            # documented: methods that append refuse an Array with trailing bits (an empty producer may be a no-op)
            if st == 'ok' and not vals and not faulty:
                return self._obs(st, r)
            cl = ['ValueError'] + (['InjectedProducerFault'] if fired else [])
            self.want_raise(st, r, tuple(cl), **detail)
            return self._obs(st, r)
        good = len(vals)
        classes = set()
        died_at = min(fi.fail_at, len(vals)) if faulty else None
        if bad is not None and (died_at is None or bad < died_at):
            good = bad
            classes = set(self._classes(excs, 'ValueError', 'TypeError'))
        elif faulty:
            good = died_at
            classes = {'InjectedProducerFault'}
        if not classes:
            if self.want_ok(st, r, **detail):
                self.items = old + encs
            return self._obs(st, r)
        self.want_raise(st, r, tuple(sorted(classes)), **detail)
        cands = [(old + encs[:j], '') for j in range(good, -1, -1)]
        which = self.adopt(cands)
        if which < 0:
            self.fail('not-a-prefix', got=(self._real_bits() or '')[:300], **detail)
        elif good and which == 0 and bad is not None:
            self.probe('extend:bad-value-after-prefix')
        return self._obs(st, r)

    ev_extend_f = ev_extend

    def _other(self, ev):
        """Another Array described by an event: (array, DT, items, trailing)."""
        key = ev.get('dt2')
        d2 = TABLE.get(key) if isinstance(key, str) else None
        if d2 is None:
            d2 = self.dt
        bits = ev.get('bin', '')
        if not isinstance(bits, str) or set(bits) - {'0', '1'}:
            bits = ''
        its, tr = split(bits, d2.w)
        return self.mk_array(d2.key, bits), d2, its, tr

    def _extend_array(self, ev, old):
        o, d2, its, tr = self._other(ev)
        same_id = d2.ident == self.dt.ident
        same_sem = d2.sem == self.dt.sem
        self._trig = self.tb('array-same-dtype' if same_id else 'array-equivalent-dtype' if same_sem else 'array-other-dtype',
                             'operand-trailing-bits' if tr else '-')
        st, r = call(self.a.extend, o)
        detail = {'dt2': d2.key, 'n2': len(its)}
        if self.trail:
            if not (st == 'ok' and not its and not tr):
                self.want_raise(st, r, ('ValueError', 'TypeError'), **detail)
        elif same_id or (same_sem and st == 'ok'):
            if self.want_ok(st, r, **detail):
                # the operand's own trailing bits: the list model appends items only; the data route appends them too
                if self.adopt([(old + its, ''), (old + its, tr)]) < 0:
                    self.items = old + its
        else:
            self.want_raise(st, r, ('TypeError', 'ValueError'), **detail)
        if self.to_model_order(kernel.safe_bin(o.data), max(len(its[0]), 1) if its else 1) != ''.join(its) + tr and not (self.lsb0 and not its):
            self.fail('operand-changed', **detail)
        return self._obs(st, r)

    def _extend_aa(self, ev, old):
        aa = self._aa(ev)
        if aa is None:
            return {'skip': 'bad array.array'}
        arr, kind, w = aa
        tc = arr.typecode
        m = self._aa_match(kind, w)
        # typecodes whose platform size differs from their struct "standard size" (l/L on LP64) get their own tag
        odd = array.array(tc).itemsize != struct.calcsize('=' + tc)
        self._trig = self.tb('array.array-nonstandard-size-typecode' if odd else 'array.array-' + m)
        st, r = call(self.a.extend, arr)
        detail = {'typecode': tc, 'n2': len(arr), 'match': m}
        chunks, _ = split(bytes_to_bits(arr.tobytes()), w)
        if self.trail:
            if not (st == 'ok' and not len(arr)):
                self.want_raise(st, r, ('ValueError', 'TypeError'), **detail)
        elif m == 'strict' or (m == 'semantic' and st == 'ok'):
            if self.want_ok(st, r, **detail):
                self.items = old + chunks
                self.probe('extend:array.array-match')
        else:
            self.want_raise(st, r, ('ValueError', 'TypeError'), **detail)
        return self._obs(st, r)

    def ev_equals(self, ev):
        self._op = 'equals'
        kind = ev.get('other', 'array')
        if kind == 'array':
            o, d2, its, tr = self._other(ev)
            same_id = d2.ident == self.dt.ident
            same_sem = d2.sem == self.dt.sem
            self._trig = self.tb('array-same-dtype' if same_id else 'array-equivalent-dtype' if same_sem else 'array-other-dtype')
            st, r = call(self.a.equals, o)
            data_eq = ''.join(its) + tr == self.bits()
            # documented: True iff the dtypes are equivalent and the underlying bit data is the same
            if same_id:
                ok = (r is data_eq)
            elif same_sem:
                ok = (r is False) or (r is data_eq)
            else:
                ok = (r is False)
            if self.want_ok(st, r, dt2=d2.key) and not ok:
                self.fail('wrong-return', got=kernel.canon(r), dt2=d2.key, data_equal=data_eq)
            return self._obs(st, r, kernel.canon(r))
        if kind == 'aa':
            aa = self._aa(ev)
            if aa is None:
                return {'skip': 'bad array.array'}
            arr, k2, w = aa
            m = self._aa_match(k2, w)
            self._trig = self.tb('array.array-' + m)
            st, r = call(self.a.equals, arr)
            if self.want_ok(st, r, typecode=arr.typecode):
                st2, leq = call(lambda: self.vals() == arr.tolist())
                if self.trail or w != self.dt.w or len(arr) != len(self.items) or (st2 == 'ok' and not leq):
                    ok = r is False
                elif m != 'no' and st2 == 'ok' and leq:
                    ok = r is True
                else:
                    ok = isinstance(r, bool)
                if not ok:
                    self.fail('wrong-return', got=kernel.canon(r), typecode=arr.typecode, n2=len(arr))
            return self._obs(st, r, kernel.canon(r))
        self._trig = self.tb('foreign-object')
        st, r = call(self.a.equals, 'hello' if kind == 'str' else None)
        if self.want_ok(st, r) and r is not False:
            self.fail('wrong-return', got=kernel.canon(r))
        return self._obs(st, r, kernel.canon(r))

    def ev_copy(self, ev):
        how = ev.get('how', 'copy')
        self._op, self._trig = 'copy', self.tb(how if how in ('slice', 'deepcopy') else 'copy.copy')
        if how == 'deepcopy' and not CHECK_DEEPCOPY:
            return {'skip': 'deepcopy'}
        fn = {'slice': lambda: self.a[:], 'deepcopy': lambda: copy.deepcopy(self.a)}.get(how, lambda: copy.copy(self.a))
        st, c = call(fn)
        if self.want_ok(st, c, how=how) and self._check_result_array(c, self.dt, self.items, how=how):
            if c is self.a:
                self.fail('copy-is-same-object', how=how)
            else:
                # independence: wreck the copy, the original must not move (checked by the oracle that follows)
                st2, e = call(lambda: (c.data.invert() if len(c.data) else None, c.data.append('0b1')))
                self._verified = None
        return self._obs(st, c)

    def ev_set_dtype(self, ev):
        key = ev.get('dt2')
        via = ev.get('via', 'str')
        self._op = 'set_dtype'
        old_bits = self.bits()
        if key in TABLE:
            d2 = TABLE[key]
            self._trig = self.tb('-')
            arg = self.D(key) if via == 'obj' else key

            def f():
                self.a.dtype = arg
            st, r = call(f)
            if self.want_ok(st, r, dt2=key, via=via):
                n0 = len(self.items)
                # the data is re-read, untouched, with the new item width (under lsb0: counted from the other end of the stored bits)
                old_bits = self.to_stored_order(old_bits, self.dt.w)
                self.dt = d2
                old_bits = self.to_model_order(old_bits, d2.w)
                self.items, self.trail = split(old_bits, d2.w)
                if len(self.items) != n0:
                    self.probe('dtype:reread-changes-len')
                if d2.w > 64:
                    self.probe('dtype:width>64')
                if d2.kind == 'bytes':
                    self.probe('dtype:bytes')
                if key[0] in '<>=@':
                    self.probe('dtype:struct-code')
            return self._obs(st, r)
        if key in INVALID_DTYPES:
            self._trig = self.tb('invalid-dtype')

            def f():
                self.a.dtype = key
            st, r = call(f)
            self.want_raise(st, r, ('ValueError',), dt2=key)
            return self._obs(st, r)
        return {'skip': 'unknown dtype'}

    def ev_set_data(self, ev):
        mode = ev.get('mode', 'assign')
        bits = ev.get('bin', '')
        if not isinstance(bits, str) or set(bits) - {'0', '1'}:
            bits = ''
        self._op, self._trig = 'set_data', mode if mode in ('assign', 'append', 'trunc') else 'assign'
        cur = self.bits()
        if mode == 'append':
            def f():
                self.a.data += self.B.Bits(bin=bits)
            new = cur + bits
        elif mode == 'trunc':
            k = min(len(bits), len(cur))

            def f():
                if k:
                    del self.a.data[len(cur) - k:]
            new = cur[:len(cur) - k]
        else:
            def f():
                self.a.data = self.B.BitArray(bin=bits)
            new = bits
        st, r = call(f)
        if self.want_ok(st, r, mode=mode):
            self.items, self.trail = split(new, self.dt.w)
        return self._obs(st, r)

    # =================================================================================================
    # bytes and files
    # =================================================================================================
    def ev_tobytes(self, ev):
        self._op = 'tobytes'
        st, r = call(self.a.tobytes)
        want = bits_to_bytes(self.bits())
        if self.want_ok(st, r) and r != want:
            self.fail('wrong-return', got=kernel.canon(r), want=want.hex())
        return self._obs(st, r, len(want))

    def ev_tofile(self, ev):
        via = ev.get('via', 'bytesio')
        self._op, self._trig = 'tofile', self.tb(via if via in ('file', 'simwriter') else 'bytesio')
        want = bits_to_bytes(self.bits())
        if via == 'file':
            fs = self._fs()
            p = fs.new_file(b'')
            h = fs.open(p, 'wb')
            st, r = call(self.a.tofile, h)
            h.close()
            with open(p, 'rb') as f:
                got = f.read()
        elif via == 'simwriter':
            wr = SimWriter(None)
            st, r = call(self.a.tofile, wr)
            got = bytes(wr.durable)
        else:
            bio = io.BytesIO()
            st, r = call(self.a.tofile, bio)
            got = bio.getvalue()
        if self.want_ok(st, r, via=via) and got != want:
            self.fail('content-mismatch-in-file', got=got.hex()[:200], want=want.hex()[:200])
        return self._obs(st, r, len(want))

    def ev_fromfile(self, ev):
        via = ev.get('via', 'bytesio')
        n = self._optint(ev, 'n')
        self._op = 'fromfile'
        try:
            data = bytes.fromhex(ev.get('data', ''))
        except (ValueError, TypeError):
            data = b''
        if n is not None and n < 0:
            return {'skip': 'negative n'}
        w = self.dt.w
        avail = (len(data) * 8) // w
        self._trig = self.tb('short-file' if n is not None and n > avail else '-', 'empty-file' if not data else '-')
        h = None
        if via == 'file':
            fs = self._fs()
            h = fs.open(fs.new_file(data), 'rb')
            src = h
        else:
            src = io.BytesIO(data)
        st, r = call(self.a.fromfile, src) if n is None else call(self.a.fromfile, src, n)
        if h is not None:
            h.close()
        detail = {'n': n, 'avail': avail, 'via': via, 'size': len(data)}
        if self.trail:
            self.want_raise(st, r, ('ValueError',), **detail)
            return self._obs(st, r)
        take = avail if n is None else min(n, avail)
        new, _ = split(bytes_to_bits(data)[:take * w], w)
        if n is not None and n > avail:
            self.probe('fromfile:short')
            self.fault('short_file')
            self.want_raise(st, r, ('EOFError',), **detail)
            self.items = self.items + new
        elif self.want_ok(st, r, **detail):
            self.items = self.items + new
        return self._obs(st, r, take)

    def ev_ctor(self, ev):
        """Build a NEW Array from the model's state through a constructor route and carry on with it as the subject:
        'building an Array' must give the list of the items / the data handed over, trailing bits last."""
        B = self.B
        how = ev.get('how', 'list')
        use_tb = bool(ev.get('tb_kw'))
        w, key = self.dt.w, self.dt.key
        self._op, self._trig = 'ctor', self.tb('via-' + str(how))
        kw = {}
        trail = self.trail
        keep_src = None
        if use_tb and trail:
            kw['trailing_bits'] = '0b' + trail if ev.get('tb_as') != 'bits' else B.Bits(bin=trail) if ev.get('cls') != 'BitArray' else B.BitArray(bin=trail)
            if ev.get('tb_as') == 'bits' and ev.get('cls') == 'BitArray':
                keep_src = kw['trailing_bits']
        h = None
        if how in ('list', 'tuple', 'gen', 'array'):
            vals = self.vals()
            encs, bad, excs = self._encode_all(vals, self.dt)
            if bad is not None or any(is_nan(v) for v in vals):
                return {'skip': 'items do not re-encode (NaN payload / saturating code)'}
            if any(_isint(v) and self.dt.kind == 'bytes' for v in vals):
                return {'skip': 'bytes(n)'}
            if how == 'array' and list(encs) != list(self.items):
                return {'skip': 'an item that does not re-encode to itself (e5m2 infinity under saturate): copying the data and re-encoding the values are both defensible'}
            src = {'list': lambda: list(vals), 'tuple': lambda: tuple(vals), 'gen': lambda: (v for v in vals),
                   'array': lambda: self.mk_array(key, ''.join(self.items))}[how]()
            want_items = list(encs)
            if not use_tb or not trail:
                trail = ''
            st, c = call(lambda: B.Array(key, src, **kw))
        elif how == 'int':
            n = len(self.items)
            want_items = ['0' * w] * n
            if not use_tb or not trail:
                trail = ''
            st, c = call(lambda: B.Array(key, n, **kw))
        else:
            bits = ''.join(self.items) + ('' if (use_tb and trail) else self.trail)
            if how != 'bits' and len(bits) % 8:
                bits = bits[:len(bits) - len(bits) % 8]
            if how == 'bits':
                src = B.Bits(bin=bits) if ev.get('cls') != 'BitArray' else B.BitArray(bin=bits)
                keep_src = src if ev.get('cls') == 'BitArray' else None
            else:
                by = bits_to_bytes(bits)
                if how == 'bytearray':
                    src = bytearray(by)
                elif how == 'memoryview':
                    src = memoryview(by)
                elif how == 'file':
                    fs = self._fs()
                    h = fs.open(fs.new_file(by), 'rb')
                    src = h
                else:
                    src = by
            st, c = call(lambda: B.Array(key, src, **kw))
            want_items, rest = split(bits, w)
            if how == 'file':
                rest = ''       # a file initialiser is read like fromfile(): whole items only
            if use_tb and trail:
                if rest:
                    # data that is not a whole number of items followed by explicit trailing bits: one bit sequence
                    want_items, trail = split(bits + trail, w)
            else:
                trail = rest
        if h is not None:
            h.close()
        if self.want_ok(st, c, how=how, tb_kw=use_tb):
            self.items, self.trail = list(want_items), trail
            self.a = c
            self.it = None
            self._verified = None
            self._src = keep_src
            if keep_src is not None:
                self.queue.append({'k': 'poke_src', 'how': 'invert' if len(self.items) % 2 else 'append'})
        return self._obs(st, c)

    def ev_astype(self, ev):
        key = ev.get('dt2')
        if key not in TABLE:
            return {'skip': 'unknown dtype'}
        d2 = TABLE[key]
        self._op, self._trig = 'astype', self.tb('to-' + d2.cls + '-from-' + self.dt.cls)
        if d2.kind == 'bytes' and any(_isint(x) and x > 4096 for x in self.vals()):
            return {'skip': 'bytes(n) allocates n bytes'}
        encs, bad, excs = self._encode_all(self.vals(), d2)
        st, r = call(self.a.astype, key)
        if bad is not None:
            self.want_raise(st, r, self._classes(excs, 'ValueError', 'TypeError'), dt2=key, bad_at=bad)
        elif self.want_ok(st, r, dt2=key):
            self._check_result_array(r, d2, encs, allow_trailing=False, nan_ok=True, dt2=key)
        return self._obs(st, r)

    def ev_byteswap(self, ev):
        self._op = 'byteswap'
        w = self.dt.w
        st, r = call(self.a.byteswap)
        if w % 8:
            self.want_raise(st, r, ('ValueError',))
        elif self.trail and st == 'exc' and exc_is(r, 'ValueError'):
            pass        # not covered by the statement: refusing an Array with trailing bits is accepted
        elif self.want_ok(st, r):
            self.items = [''.join(reversed([c[i:i + 8] for i in range(0, w, 8)])) for c in self.items]
        return self._obs(st, r)

    def ev_option(self, ev):
        """options.bytealigned flipped between two operations: a reconfiguration an Array must not notice.  options.lsb0 flipped:
        the data stays as stored and is from now on read with the other bit numbering (the model re-reads it the same way)."""
        self._op = 'option'
        if ev.get('name') == 'lsb0':
            stored = self.to_stored_order(self.bits(), self.dt.w)
            self.lsb0 = bool(ev.get('value'))
            self.B.options.lsb0 = self.lsb0
            self.items, self.trail = split(self.to_model_order(stored, self.dt.w), self.dt.w)
            self.it = None
            self.probe('option:lsb0-toggled')
            self._verified = None
            return {'st': 'ok', 'lsb0': self.lsb0}
        self.B.options.bytealigned = bool(ev.get('value'))
        self.probe('option:bytealigned')
        self._verified = None
        return {'st': 'ok'}

    def ev_poke_src(self, ev):
        """The caller changes the BitArray an earlier constructor call was given (data or trailing bits): the Array was
        built FROM it and must not move."""
        self._op, self._trig = 'poke_src', self.tb('after-ctor')
        src = self._src
        if src is None:
            return {'skip': 'no constructor source alive'}
        how = ev.get('how')
        st, r = call(lambda: (src.invert() if (how == 'invert' and len(src)) else src.append('0b1') if how == 'append' else src.clear()))
        self.probe('ctor:source-changed-afterwards')
        self._verified = None
        return self._obs(st, r)

    def ev_scaled(self, ev):
        """The same data under a Dtype object that carries a scale (twin S) and under the plain dtype (twin U): S decodes to
        U's items times the scale, index for index; pop takes the same bits out of both; a pop that cannot decode its item
        has not removed it; and what an operator gives for scaled operands does not depend on which scaled operands an earlier
        call had.  Self-contained: the run's own Array is not touched."""
        B = self.B
        what = ev.get('what')
        self._op, self._trig = f'scaled:{what}', self.tb()
        if self.dt.cls == 'other' or self.dt.key[0] in '<>=@':
            return {'skip': 'not a numeric dtype'}
        k = ev.get('scale') if ev.get('scale') in (2, 4, 0.5, -1, 1000) else 2
        if what == 'auto_ctor':
            # Array(Dtype(..., scale='auto'), values): the same values from a list and from a one-shot producer build the same Array
            if self.dt.cls != 'float':
                return {'skip': "'auto' scales exist for float formats only"}
            st, da = call(B.Dtype, self.dt.key, scale='auto')
            vals = [v for v in self.vals() if isinstance(v, float) and v == v and abs(v) != float('inf')][:6]
            if st != 'ok' or not vals:
                return {'skip': 'no auto-scaled Dtype / no finite values'}
            ra = call(B.Array, da, list(vals))
            rb = call(B.Array, da, (v for v in vals))
            rc = call(B.Array, da, iter(vals))

            def canon_a(r):
                st_, v = r
                return ('exc', exc_name(v)) if st_ != 'ok' else ('ok', str(v.dtype), repr(getattr(v.dtype, 'scale', None)), kernel.safe_bin(v.data))
            if ra[0] == 'ok':
                self.probe('scaled:auto-ctor')
            if not (canon_a(ra) == canon_a(rb) == canon_a(rc)):
                self.fail('one-shot-initializer-builds-another-array', from_list=canon_a(ra)[:3] + (len(canon_a(ra)[-1]),), from_generator=canon_a(rb)[:3] + (len(canon_a(rb)[-1]),),
                          from_iterator=canon_a(rc)[:3] + (len(canon_a(rc)[-1]),), values=kernel.canon(vals))
            return {'st': ra[0]}
        if what == 'pop_undecodable':
            if self.dt.cls != 'float':
                return {'skip': 'undecodable items need a float dtype'}
            k = 10 ** 400
        if isinstance(k, int) and what == 'read' and abs(k) < 10 ** 6:
            # an equal scale of the other numeric type was used a moment ago: 2 and 2.0 are different scales (int items stay int)
            call(lambda: B.Array(B.Dtype(self.dt.key, scale=float(k)), []).tolist())
            self.probe('scaled:equal-scale-of-other-type-first')
        st, ds = call(B.Dtype, self.dt.key, scale=k)
        if st != 'ok':
            return {'skip': 'no scaled Dtype for this key'}
        bits = self.bits()
        U = self.mk_array(self.dt.key, bits)
        st, S = call(B.Array, ds)
        if st != 'ok':
            self.fail('scaled-array-refused', exc=kernel.canon(S))
            return self._obs(st, S)
        S.data = B.BitArray(U.data)
        self.probe('scaled:twin-built')

        def same(a, b):
            return (a == b and type(a) is type(b)) or (a != a and b != b)

        def times(u):
            try:
                return u * k
            except OverflowError:
                return None
        n = len(self.items)
        if what == 'read':
            st_s, ls = call(S.tolist)
            st_u, lu = call(U.tolist)
            if st_u != 'ok':
                return {'skip': 'plain twin unreadable'}
            if st_s != 'ok':
                self.fail('raised', exc=kernel.canon(ls))
            elif len(ls) != len(lu) or not all(same(a, times(b)) for a, b in zip(ls, lu)):
                self.fail('items-are-not-the-plain-items-times-the-scale', got=kernel.canon(ls[:6]), plain=kernel.canon(lu[:6]), scale=k)
            if n:
                i = int(ev.get('i', 0)) % n
                st_s, a = call(S.__getitem__, i)
                if st_s != 'ok' or not same(a, times(lu[i])):
                    self.fail('item-is-not-the-plain-item-times-the-scale', i=i, got=kernel.canon(a), plain=kernel.canon(lu[i]), scale=k)
            return {'st': 'ok'}
        if what in ('pop', 'pop_undecodable'):
            i = int(ev.get('i', 0))
            before = kernel.safe_bin(S.data)
            st_u, ru = call(U.pop, i) if n else call(U.pop)
            st_s, rs = call(S.pop, i) if n else call(S.pop)
            after = kernel.safe_bin(S.data)
            if st_s == 'exc':
                if after != before:
                    self.fail('refused-pop-changed-the-array', exc=kernel.canon(rs), before=before[:200], after=after[:200])
                if st_u == 'ok' and what == 'pop':
                    self.fail('raised', exc=kernel.canon(rs))
                if what == 'pop_undecodable':
                    self.probe('scaled:pop-of-undecodable-item-refused')
            elif st_u == 'ok':
                if after != kernel.safe_bin(U.data) or not same(rs, times(ru)):
                    self.fail('pop-differs-from-plain-twin', got=kernel.canon(rs), plain=kernel.canon(ru), scale=k)
            elif what == 'pop':
                self.fail('accepted-where-plain-twin-refuses', plain_exc=kernel.canon(ru))
            return {'st': st_s}
        # op_history: T (another scale) op U, once after S op U has run and once with every cache of the package emptied
        k2 = ev.get('scale2') if ev.get('scale2') in (8, 0.25, 3) else 8
        st, dt2 = call(B.Dtype, self.dt.key, scale=k2)
        if st != 'ok' or not n:
            return {'skip': 'nothing to operate on'}
        T = B.Array(dt2)
        T.data = B.BitArray(U.data)
        pyop = {'add': operator.add, 'sub': operator.sub, 'mul': operator.mul}.get(ev.get('op'), operator.add)
        # (the other operand: the plain twin, and a narrow unsigned Array that loses the promotion against every numeric dtype)
        V = B.Array('uint1', [1] * n)
        for o in (U, V):
            call(pyop, S, o)
            call(pyop, o, S)
        first = [call(pyop, T, U), call(pyop, U, T), call(pyop, T, V), call(pyop, V, T)]
        self.R.clear_caches()
        again = [call(pyop, T, U), call(pyop, U, T), call(pyop, T, V), call(pyop, V, T)]

        def canon_r(r):
            st_, v = r
            if st_ != 'ok':
                return ('exc', exc_name(v))
            if kernel.is_array(v):
                return ('ok', str(v.dtype), repr(getattr(v.dtype, 'scale', None)), kernel.safe_bin(v.data))
            return ('ok', kernel.canon(v))
        if [canon_r(r) for r in first] != [canon_r(r) for r in again]:
            self.fail('result-depends-on-an-earlier-call-with-another-scale', first=[canon_r(r)[:3] for r in first], fresh=[canon_r(r)[:3] for r in again])
        self.probe('scaled:operator-history')
        return {'st': 'ok'}

    def ev_cache_clear(self, ev):
        self._op = 'cache_clear'
        self.R.clear_caches()
        self.probe('cache_clear')
        self._verified = None
        return {'st': 'ok'}

    # =================================================================================================
    # operators
    # =================================================================================================
    def _map(self, pyop, xs, ys, dres):
        """Map the Python operator over the items and encode with the result dtype through the library's own route.
        Returns (encodings, [(index, exception)...])."""
        out, errs = [], []
        for i, x in enumerate(xs):
            try:
                r = pyop(x) if ys is None else pyop(x, ys[i])
            except Exception as e:  # noqa
                errs.append((i, e))
                out.append(None)
                continue
            st, b = self.enc(dres, r)
            if st == 'exc':
                errs.append((i, b))
                out.append(None)
            else:
                out.append(b)
        return out, errs

    def _heavy(self, opname, xs, ys):
        """Operations that could allocate without bound (huge shifts, sequence repetition) are not executed."""
        if opname == 'lshift':
            return any(_isint(y) and abs(y) > 4096 for y in ys)
        if opname == 'mul':
            return any(not isinstance(x, (int, float)) and _isint(y) and abs(y) > 64 for x, y in zip(xs, ys)) or \
                any(not isinstance(y, (int, float)) and _isint(x) and abs(x) > 64 for x, y in zip(xs, ys))
        return False

    def _unfit_probes(self, errs, n):
        first = errs[0][0]
        self.probe('op:does-not-fit')
        if first == 0:
            self.probe('iop:first-unfit-at-0')
        elif first == n - 1:
            self.probe('iop:first-unfit-at-last')
        else:
            self.probe('iop:first-unfit-in-middle')

    def _settle_inplace(self, st, r, out, errs, dres, detail, rebinds):
        """Common tail of every in-place operator."""
        n = len(self.items)
        if errs:
            self._unfit_probes(errs, n)
            self.fault('inplace_result_does_not_fit')
            cl = self._classes([e for _, e in errs], 'ValueError')
            self.want_raise(st, r, cl, first_bad=errs[0][0], **detail)
            if self._real_bits() != self.bits():
                # the statement: a failing in-place operator leaves the Array unchanged
                self.fail('not-atomic', got=(self._real_bits() or '')[:300], first_bad=errs[0][0], **detail)
                self._resync()
            return
        if not self.want_ok(st, r, **detail):
            return
        if not kernel.is_array(r):
            self.fail('wrong-return-type', got=type(r).__name__, **detail)
            return
        if not rebinds and r is not self.a:
            self.fail('inplace-returned-another-object', **detail)
        old_trail = self.trail
        self.a = r
        self.dt = dres
        # DESIGN 5.3: trailing bits may be kept or dropped by an element-wise in-place operator
        if self.adopt([(out, old_trail), (out, '')]) < 0:
            real = self._real_bits() or ''
            got, tr = split(real, dres.w)
            if len(got) == len(out) and tr in ('', old_trail) and all(
                    x == y or (is_nan(self.dec(dres, x)) and is_nan(self.dec(dres, y))) for x, y in zip(got, out)):
                self.items, self.trail = got, tr          # NaN payload / sign is not an item difference
            else:
                self.items, self.trail = out, ('' if rebinds else old_trail)
        elif old_trail and not self.trail:
            self.probe('iop:trailing-bits-dropped')

    def _scalar_trig(self, opname, s, reflected=False):
        tags = []
        if reflected and opname == 'sub' and self.dt.cls != 'other':
            if not self.dt.signed:
                tags.append('unsigned-rsub')
            else:
                for x in self.vals():
                    st, e = self.enc(self.dt, -x)
                    if st == 'exc' or not same(self.dec(self.dt, e), -x):
                        tags.append('negation-unrepresentable-rsub')
                        break
        if self.dt.cls == 'other':
            tags.append('nonnumeric-dtype')
        if is_nan(s):
            tags.append('nan-scalar')
        return self.tb(*tags)

    def ev_op(self, ev):
        """a <op> rhs  (new Array), rhs = scalar | Array | bitstring (for & | ^) | list (for == !=)."""
        return self._binary(ev, inplace=False)

    def ev_iop(self, ev):
        return self._binary(ev, inplace=True)

    ev_iop_unfit = ev_iop

    def _binary(self, ev, inplace):
        opname = ev.get('op')
        rhs = ev.get('rhs')
        if not isinstance(rhs, dict) or opname not in PYOP or opname in ('neg', 'abs'):
            return {'skip': 'bad op'}
        if inplace and opname not in IOP:
            return {'skip': 'no in-place form'}
        if opname in BITWISE:
            return self._bitwise(ev, opname, rhs, inplace, reflected=False)
        if 'bw' in rhs:
            return {'skip': 'bitstring operand for a non-bitwise operator'}
        # == and != share one call site (Array._eq_ne): one op name, so that one defect has one signature
        self._op = ('iop:' if inplace else 'op:') + ('eq/ne' if opname in ('eq', 'ne') else opname)
        pyop = PYOP[opname]
        fn = IOP[opname] if inplace else pyop
        xs = self.vals()
        n = len(xs)
        if 'arr' in rhs and isinstance(rhs['arr'], dict):
            return self._array_operand(opname, rhs['arr'], inplace, pyop, fn, xs)
        if 'list' in rhs:
            if opname not in ('eq', 'ne') or not isinstance(rhs['list'], list):
                return {'skip': 'list operand'}
            return self._list_operand(opname, rhs['list'], pyop, xs)
        s = self.pyval(rhs.get('s'))
        if s is None or (isinstance(s, bytes) and not (self.dt.kind == 'bytes' and opname in CMP)) or (isinstance(s, str) and opname not in ('eq', 'ne', 'add')):
            # (a bytes object next to a non-bytes Array is an Array initialiser, not a scalar; next to a bytes Array it is an item value)
            return {'skip': 'scalar'}
        if self._heavy(opname, xs, [s] * n):
            return {'skip': 'heavy'}
        self._trig = self._scalar_trig(opname, s)
        dres = TABLE['bool'] if opname in CMP else self.dt
        out, errs = self._map(pyop, xs, [s] * n, dres)
        detail = {'scalar': rhs.get('s')}
        if inplace:
            st, r = call(fn, self.a, s)
            self._settle_inplace(st, r, out, errs, dres, detail, rebinds=False)
            return self._obs(st, r)
        st, r = call(fn, self.a, s)
        self._settle_result(st, r, out, errs, dres, detail)
        return self._obs(st, r)

    def _settle_result(self, st, r, out, errs, dres, detail):
        if errs:
            self.probe('op:does-not-fit')
            self.want_raise(st, r, self._classes([e for _, e in errs], 'ValueError'), first_bad=errs[0][0], **detail)
        elif self.want_ok(st, r, **detail):
            self._check_result_array(r, dres, out, nan_ok=True, **detail)
            if r is self.a:
                self.fail('result-is-the-operand', **detail)

    def ev_rop(self, ev):
        """scalar <op> a  for + - * and bitstring <op> a for & | ^."""
        opname = ev.get('op')
        rhs = ev.get('rhs')
        if not isinstance(rhs, dict):
            return {'skip': 'bad op'}
        if opname in BITWISE:
            return self._bitwise(ev, opname, rhs, False, reflected=True)
        if opname not in ('add', 'sub', 'mul'):
            return {'skip': 'no reflected form'}
        s = self.pyval(rhs.get('s'))
        if not isinstance(s, (int, float)):
            return {'skip': 'scalar'}
        self._op = 'rop:' + opname
        xs = self.vals()
        if self._heavy(opname, xs, [s] * len(xs)):
            return {'skip': 'heavy'}
        self._trig = self._scalar_trig(opname, s, reflected=True)
        pyop = PYOP[opname]
        out, errs = self._map(lambda x, y: pyop(y, x), xs, [s] * len(xs), self.dt)
        st, r = call(pyop, s, self.a)
        self._settle_result(st, r, out, errs, self.dt, {'scalar': rhs.get('s')})
        return self._obs(st, r)

    def ev_unary(self, ev):
        opname = ev.get('op')
        if opname not in ('neg', 'abs'):
            return {'skip': 'bad op'}
        self._op = 'op:' + opname
        self._trig = self.tb('nonnumeric-dtype' if self.dt.cls == 'other' else '-')
        pyop = PYOP[opname]
        out, errs = self._map(pyop, self.vals(), None, self.dt)
        st, r = call(pyop, self.a)
        self._settle_result(st, r, out, errs, self.dt, {})
        return self._obs(st, r)

    def _bitwise(self, ev, opname, rhs, inplace, reflected):
        vb = rhs.get('bw')
        if not isinstance(vb, str) or set(vb) - {'0', '1'}:
            return {'skip': 'operand'}
        form = rhs.get('as', 'bits')
        self._op = ('rop:' if reflected else 'iop:' if inplace else 'op:') + opname
        w = self.dt.w
        self._trig = self.tb('bitstring-operand', 'wrong-length' if len(vb) != w else '-')
        if form == 'bytes' and vb and len(vb) % 8 == 0:
            val = bits_to_bytes(vb)
        elif form == 'str' or reflected:
            val = '0b' + vb if vb else ''
        else:
            val = self.B.Bits(bin=vb)
        f = {'and': lambda p, q: '1' if p == q == '1' else '0', 'or': lambda p, q: '1' if '1' in (p, q) else '0',
             'xor': lambda p, q: '1' if p != q else '0'}[opname]
        errs = [(0, ValueError('length'))] if len(vb) != w else []
        out = [] if errs else [''.join(f(p, q) for p, q in zip(c, vb)) for c in self.items]
        detail = {'operand_bits': vb, 'as': form}
        if reflected:
            st, r = call(PYOP[opname], val, self.a)
        else:
            st, r = call(IOP[opname] if inplace else PYOP[opname], self.a, val)
        if inplace:
            if errs:
                self.want_raise(st, r, ('ValueError',), **detail)
                if self._real_bits() != self.bits():
                    self.fail('not-atomic', **detail)
            else:
                self._settle_inplace(st, r, out, errs, self.dt, detail, rebinds=False)
        else:
            self._settle_result(st, r, out, errs, self.dt, detail)
        return self._obs(st, r)

    def _array_operand(self, opname, spec, inplace, pyop, fn, xs):
        if spec.get('self'):
            o, d2, its, tr = self.a, self.dt, list(self.items), self.trail      # a <op> a
        else:
            o, d2, its, tr = self._other({'dt2': spec.get('dt'), 'bin': spec.get('bin', '')})
        ys = [self.dec(d2, c) for c in its]
        n = len(xs)
        d1 = self.dt
        same_id = d1.ident == d2.ident
        nonnum = d1.cls == 'other' or d2.cls == 'other'
        detail = {'dt2': d2.key, 'n2': len(ys), 'operand_bits': (''.join(its) + tr)[:200]}
        tags = []
        if opname in ('eq', 'ne'):
            tags.append('array-same-dtype' if same_id else 'array-other-dtype')
        if nonnum:
            tags.append('nonnumeric-dtype')
        if len(ys) != n:
            tags.append('length-mismatch')
        if not nonnum and opname not in CMP:
            if (d1.cls == 'float') != (d2.cls == 'float'):
                rule = 'float-beats-int'
            elif d1.cls == 'int' and d1.signed != d2.signed:
                rule = 'signed-beats-unsigned'
            elif d1.w != d2.w:
                rule = 'longer'
            else:
                rule = 'same-dtype' if same_id else 'tie-first'
            tags.append('array-operand:' + rule)
            if rule != 'same-dtype' and len(ys) == n:
                self.probe('promote:' + rule)
        elif not tags:
            tags.append('array-operand')
        self._trig = self.tb(*tags)
        if len(ys) == n and not nonnum and self._heavy(opname, xs, ys):
            return {'skip': 'heavy'}
        st, r = call(fn, self.a, o)
        ob = self.to_model_order(kernel.safe_bin(o.data), max(len(its[0]), 1) if its else 1)
        if ob != ''.join(its) + tr and not (self.lsb0 and not its):
            self.fail('operand-changed', **detail)
        if len(ys) != n:
            self.want_raise(st, r, ('ValueError', 'TypeError'), **detail)
            return self._obs(st, r)
        if opname in CMP:
            dres = TABLE['bool']
        elif nonnum:
            # documented: both dtypes must be numerical.  With no items at all an empty result is also a faithful map.
            if not (st == 'ok' and n == 0):
                self.want_raise(st, r, ('ValueError', 'TypeError'), **detail)
            return self._obs(st, r)
        else:
            dres = promote(d1, d2)
        out, errs = self._map(pyop, xs, ys, dres)
        if opname in CMP and nonnum and st == 'exc' and exc_is(r, 'ValueError', 'TypeError'):
            return self._obs(st, r)     # comparison of non-numerical Arrays: refusing is as documented as mapping
        if inplace:
            self._settle_inplace(st, r, out, errs, dres, detail, rebinds=True)
            if st == 'ok':
                self.probe('op:array-operand-ok')
            return self._obs(st, r)
        self._settle_result(st, r, out, errs, dres, detail)
        if st == 'ok':
            self.probe('op:array-operand-ok')
        return self._obs(st, r)

    def _list_operand(self, opname, js, pyop, xs):
        vals = [self.pyval(j) for j in js]
        self._trig = self.tb('list-operand', 'length-mismatch' if len(vals) != len(xs) else '-')
        encs, bad, excs = self._encode_all(vals)
        st, r = call(pyop, self.a, vals)
        detail = {'nvals': len(vals)}
        if bad is not None:
            return self._obs(st, r)         # undocumented operand that cannot be converted: no verdict
        if len(vals) != len(xs):
            self.want_raise(st, r, ('ValueError', 'TypeError'), **detail)
            return self._obs(st, r)
        ys = [self.dec(self.dt, e) for e in encs]
        out, errs = self._map(pyop, xs, ys, TABLE['bool'])
        self._settle_result(st, r, out, errs, TABLE['bool'], detail)
        return self._obs(st, r)

    # =================================================================================================
    # generation (the only place, with config, that draws randomness)
    # =================================================================================================
    BASE_W = (('len', 1), ('get', 4), ('getslice', 4), ('set', 5), ('setslice', 5), ('setslice_f', 1.5), ('del', 2),
              ('delslice', 3), ('append', 4), ('extend', 5), ('extend_f', 1.5), ('insert', 5), ('pop', 4), ('reverse', 2),
              ('count', 3), ('contains', 1), ('tolist', 1), ('iter', 1.5), ('iter_start', 1), ('iter_next', 2.5),
              ('equals', 3), ('copy', 2), ('set_dtype', 3), ('set_data', 2), ('props', 1), ('op', 8), ('iop', 6),
              ('iop_unfit', 2.5), ('rop', 3), ('unary', 2), ('tobytes', 1), ('tofile', 1.5), ('fromfile', 2.5),
              ('astype', 2), ('byteswap', 1), ('cache_clear', 2), ('ctor', 3), ('option', 1), ('poke_src', 1), ('scaled', 1.5))
    FOCUS = {'list': ('get', 'set', 'del', 'append', 'extend', 'insert', 'pop', 'reverse', 'count', 'iter_next'),
             'slices': ('getslice', 'setslice', 'setslice_f', 'delslice'),
             'ops': ('op', 'iop', 'iop_unfit', 'rop', 'unary'),
             'io': ('tofile', 'fromfile', 'tobytes', 'extend'),
             'dtype': ('set_dtype', 'set_data', 'astype', 'equals', 'cache_clear', 'ctor'),
             'faults': ('extend_f', 'setslice_f', 'iop_unfit', 'fromfile', 'cache_clear', 'set_dtype', 'option')}

    def gen(self, g):
        if self.queue:
            return self.queue.pop(0)
        boost = self.FOCUS.get(self.focus, ())
        pairs = [(k, w * (4 if k in boost else 1)) for k, w in self.BASE_W]
        n = len(self.items)
        if n > 10:
            pairs += [('delslice', 25), ('pop', 10), ('set_data', 10)]
        for _ in range(30):
            k = g.wpick(pairs)
            ev = getattr(self, 'g_' + k, lambda g_: {'k': k})(g)
            if ev is not None:
                return ev
        return {'k': 'len'}

    # -- values ------------------------------------------------------------------------------------------
    def gval(self, g, d=None, fit=True):
        """A JSON-form value for dtype d: fitting (boundary biased) or not."""
        d = d or self.dt
        w, kind = d.w, d.kind
        r = g.r
        if not fit:
            if kind == 'u':
                return g.pick([-1, 2 ** w, 2 ** w + r.getrandbits(4), -2 ** w])
            if kind == 'i':
                return g.pick([2 ** (w - 1), -2 ** (w - 1) - 1, 2 ** w])
            if kind == 'bool':
                return g.pick([2, -1, 'x'])
            if d.cls == 'float':
                return g.pick(['x', 10 ** 400, {'b': '00'}])
            if kind == 'hex':
                return g.pick(['g' * (w // 4), 'a' * (w // 4 + 1), 'a' * (w // 4 - 1), 5])
            if kind == 'bin':
                return g.pick(['2' * w, '1' * (w + 1), '1' * (w - 1), 3])
            if kind == 'oct':
                return g.pick(['8' * (w // 3), '7' * (w // 3 + 1), '7' * (w // 3 - 1), 3])
            if kind == 'bytes':
                return {'b': '41' * g.pick([w // 8 + 1, w // 8 - 1])}
            return {'bits': g.bits(g.pick([w + 1, w - 1]))}
        if kind == 'u':
            return g.pick([0, 1, 2 ** w - 1, 2 ** (w - 1), r.getrandbits(w), r.getrandbits(w), r.getrandbits(min(w, 4))])
        if kind == 'i':
            return g.pick([0, 1, -1, 2 ** (w - 1) - 1, -2 ** (w - 1), r.getrandbits(w) - 2 ** (w - 1), r.randint(-3, 3) if w > 2 else 0])
        if kind == 'bool':
            return g.pick([True, False, 0, 1])
        if d.cls == 'float':
            x = g.pick([0.0, -0.0, 1.0, -1.5, 0.5, 2.0, 3.0, 0.1, 1e-3, 448.0, 65504.0, 1e5, float('inf'), float('-inf'),
                        float('nan'), 3, -7, round(r.uniform(-100, 100), 3), round(r.uniform(-2, 2), 4), r.random() * 1e-6])
            return jval(x)
        if kind == 'hex':
            s = ''.join(r.choice('0123456789abcdef') for _ in range(w // 4))
            return s.upper() if g.chance(0.1) else s
        if kind == 'bin':
            return g.bits(w)
        if kind == 'oct':
            return ''.join(r.choice('01234567') for _ in range(w // 3))
        if kind == 'bytes':
            return {'b': bytes(r.getrandbits(8) for _ in range(w // 8)).hex()}
        return {g.pick(['bits', 'bits', 'bs']): g.bits(w)}

    def gvals(self, g, k, bad_at=None):
        return [self.gval(g, fit=(i != bad_at)) for i in range(k)]

    def gexisting(self, g):
        """An existing item (as a JSON value), else a fresh one."""
        if self.items and g.chance(0.6):
            return jval(self.dec(self.dt, g.pick(self.items)))
        return self.gval(g)

    def gother(self, g, key, n):
        d2 = TABLE[key]
        bits = g.bits(max(n, 0) * d2.w)
        return bits

    # -- events ------------------------------------------------------------------------------------------
    def g_get(self, g):
        return {'k': 'get', 'i': g.pos(len(self.items))}

    def _gslice(self, g):
        n = len(self.items)
        return {'a': g.opt_pos(n), 'b': g.opt_pos(n), 'c': g.step()}

    def g_getslice(self, g):
        return dict(self._gslice(g), k='getslice')

    def g_set(self, g):
        return {'k': 'set', 'i': g.pos(len(self.items)), 'v': self.gval(g, fit=not g.chance(0.12))}

    def g_setslice(self, g, faulty=False):
        ev = self._gslice(g)
        n = len(self.items)
        sl = slice(ev['a'], ev['b'], ev['c'])
        k = len(range(*sl.indices(n)))
        if ev['c'] in (None, 1):
            cnt = g.pick([k, k, 0, 1, 2, 3, k + 1])
        else:
            cnt = k if g.chance(0.85) else g.pick([max(k - 1, 0), k + 1])
        cnt = min(cnt, 8)
        bad = g.int(0, cnt - 1) if (cnt and not faulty and g.chance(0.15)) else None
        if bad is not None:
            bad = g.pick([0, cnt // 2, cnt - 1])
        if faulty:
            ev.update(k='setslice_f', vals=self.gvals(g, cnt), fail_at=g.pick([0, cnt // 2, max(cnt - 1, 0), cnt]))
            return ev
        src = g.wpick([('list', 4), ('tuple', 1), ('gen', 2), ('array', 2)])
        if src == 'array' and bad is None:
            ev.update(k='setslice', src='array', bin=g.bits(cnt * self.dt.w))
        else:
            ev.update(k='setslice', src=src if src != 'array' else 'list', vals=self.gvals(g, cnt, bad))
        return ev

    def g_setslice_f(self, g):
        return self.g_setslice(g, faulty=True)

    def g_del(self, g):
        return {'k': 'del', 'i': g.pos(len(self.items))}

    def g_delslice(self, g):
        return dict(self._gslice(g), k='delslice')

    def g_append(self, g):
        return {'k': 'append', 'v': self.gval(g, fit=not g.chance(0.12))}

    def g_extend(self, g):
        d = self.dt
        src = g.wpick([('list', 4), ('tuple', 1), ('gen', 2), ('self', 1), ('array', 3), ('arrayarray', 2.5)])
        cnt = g.pick([0, 1, 2, 3, 4])
        if src == 'self':
            return {'k': 'extend', 'src': 'self'} if len(self.items) <= 8 else None
        if src == 'array':
            r = g.r.random()
            if r < 0.55:
                key = d.key
            elif r < 0.75:
                same = [k for k in KEYS if TABLE[k].sem == d.sem and k != d.key]
                key = g.pick(same) if same else d.key
            else:
                key = pick_dtype(g)
            bits = self.gother(g, key, cnt)
            if g.chance(0.1):
                bits += g.bits(g.int(1, max(TABLE[key].w - 1, 1))) if TABLE[key].w > 1 else ''
            return {'k': 'extend', 'src': 'array', 'dt2': key, 'bin': bits}
        if src == 'arrayarray':
            ne = 'le' if LE else 'be'
            match = [tc for tc in AA_CODES if (aa_info(tc)[0], 'be' if aa_info(tc)[1] <= 8 else ne, aa_info(tc)[1]) == d.sem]
            if self.avoid:
                match = [tc for tc in match if array.array(tc).itemsize == struct.calcsize('=' + tc)]
            odd = [c for c in 'lL' if array.array(c).itemsize != struct.calcsize('=' + c) and aa_info(c)[0] == d.kind]
            if odd and not self.avoid and d.sem == (d.kind, ne, 32) and g.chance(0.35):
                tc = g.pick(odd)        # platform size (8 bytes) differs from the struct standard size (4 bytes)
            elif match and g.chance(0.8):
                tc = g.pick(match)
            else:
                tc = g.pick([c for c in AA_CODES if not self.avoid or array.array(c).itemsize == struct.calcsize('=' + c)])
            kind, w = aa_info(tc)
            if kind == 'f':
                vals = [jval(g.pick([0.0, 1.5, -2.25, 1e10, 0.1, float('inf')])) for _ in range(cnt)]
            elif kind == 'u':
                vals = [g.pick([0, 1, 2 ** w - 1, g.r.getrandbits(w)]) for _ in range(cnt)]
            else:
                vals = [g.pick([0, -1, 2 ** (w - 1) - 1, -2 ** (w - 1), g.r.getrandbits(w) - 2 ** (w - 1)]) for _ in range(cnt)]
            return {'k': 'extend', 'src': 'arrayarray', 'tc': tc, 'vals': vals}
        bad = g.pick([0, cnt // 2, cnt - 1]) if (cnt and g.chance(0.15)) else None
        return {'k': 'extend', 'src': src, 'vals': self.gvals(g, cnt, bad)}

    def g_extend_f(self, g):
        cnt = g.pick([0, 1, 2, 3, 4])
        return {'k': 'extend_f', 'vals': self.gvals(g, cnt), 'fail_at': g.pick([0, cnt // 2, max(cnt - 1, 0), cnt])}

    def g_insert(self, g):
        n = len(self.items)
        for _ in range(10):
            i = g.pos(n, slack=3)
            if self.avoid and i < 0 and (i < -n or self.trail):
                continue
            return {'k': 'insert', 'i': i, 'v': self.gval(g, fit=not g.chance(0.1))}
        return None

    def g_pop(self, g):
        return {'k': 'pop', 'i': None if g.chance(0.4) else g.pos(len(self.items))}

    def g_count(self, g):
        if self.avoid and self.dt.cls == 'other':
            return None
        v = self.gexisting(g)
        if self.dt.cls == 'float' and g.chance(0.15):
            v = jval(float('nan'))
        return {'k': 'count', 'v': v}

    def g_contains(self, g):
        return {'k': 'contains', 'v': self.gexisting(g)}

    def g_iter(self, g):
        return {'k': 'iter', 'how': g.pick(['list', 'tuple', 'for', 'reversed'])}

    def g_iter_next(self, g):
        return {'k': 'iter_next'} if self.it is not None else ({'k': 'iter_start'} if g.chance(0.5) else None)

    def g_equals(self, g):
        d = self.dt
        r = g.r.random()
        cur = self.bits()
        if r < 0.15:
            ne = 'le' if LE else 'be'
            match = [tc for tc in AA_CODES if aa_info(tc)[1] == d.w] or list(AA_CODES)
            tc = g.pick(match) if g.chance(0.8) else g.pick(AA_CODES)
            kind, w = aa_info(tc)
            vals = []
            if d.cls != 'other' and g.chance(0.7):
                for x in self.vals():
                    st, _ = call(array.array, tc, [x])
                    if st == 'ok' and not is_nan(x):
                        vals.append(jval(x))
            else:
                vals = [g.pick([0, 1, 2]) for _ in range(g.int(0, 3))]
            if vals and g.chance(0.2):
                vals[-1] = 3
            return {'k': 'equals', 'other': 'aa', 'tc': tc, 'vals': vals}
        if r < 0.2:
            return {'k': 'equals', 'other': g.pick(['str', 'none'])}
        r = g.r.random()
        if r < 0.5:
            key = d.key
        elif r < 0.7:
            same = [k for k in KEYS if TABLE[k].sem == d.sem and k != d.key]
            key = g.pick(same) if same else d.key
        else:
            key = pick_dtype(g)
        bits = cur
        m = g.r.random()
        if m < 0.3 and cur:
            p = g.int(0, len(cur) - 1)
            bits = cur[:p] + ('1' if cur[p] == '0' else '0') + cur[p + 1:]
        elif m < 0.4:
            bits = cur + g.bits(g.int(1, 3))
        elif m < 0.5 and cur:
            bits = cur[:-1]
        return {'k': 'equals', 'other': 'array', 'dt2': key, 'bin': bits}

    def g_ctor(self, g):
        return {'k': 'ctor', 'how': g.pick(['list', 'list', 'tuple', 'gen', 'array', 'int', 'bits', 'bits', 'bytes', 'bytearray', 'memoryview', 'file']),
                'tb_kw': g.chance(0.5), 'tb_as': g.pick(['str', 'bits']), 'cls': g.pick(['Bits', 'BitArray'])}

    def g_option(self, g):
        if g.chance(0.4):
            return {'k': 'option', 'name': 'lsb0', 'value': not self.lsb0 if g.chance(0.85) else self.lsb0}
        return {'k': 'option', 'value': g.chance(0.6)}

    def g_scaled(self, g):
        if self.dt.cls == 'other' or self.dt.key[0] in '<>=@':
            return None
        return {'k': 'scaled', 'what': g.pick(['read', 'read', 'pop', 'pop_undecodable', 'op_history', 'auto_ctor']), 'scale': g.pick([2, 4, 0.5, -1, 1000]),
                'scale2': g.pick([8, 0.25, 3]), 'i': g.int(-2, 6), 'op': g.pick(['add', 'sub', 'mul'])}

    def g_poke_src(self, g):
        if self._src is None:
            return None
        return {'k': 'poke_src', 'how': g.pick(['invert', 'append', 'clear'])}

    def g_copy(self, g):
        how = g.wpick([('copy', 3), ('slice', 3), ('deepcopy', 1)])
        if how == 'deepcopy' and self.avoid:
            how = 'copy'
        return {'k': 'copy', 'how': how}

    def g_set_dtype(self, g):
        if g.chance(0.06):
            return {'k': 'set_dtype', 'dt2': g.pick(INVALID_DTYPES)}
        key = pick_dtype(g)
        via = 'obj' if (key[0] not in '<>=@' and g.chance(0.3)) else 'str'
        return {'k': 'set_dtype', 'dt2': key, 'via': via}

    def g_set_data(self, g):
        w = self.dt.w
        n = len(self.items)
        mode = g.wpick([('assign', 2), ('append', 3), ('trunc', 3)])
        if n > 10:
            return {'k': 'set_data', 'mode': 'assign', 'bin': g.bits(g.int(0, 4) * w + (g.int(0, w - 1) if g.chance(0.3) else 0))}
        if mode == 'assign':
            return {'k': 'set_data', 'mode': mode, 'bin': g.bits(g.int(0, 6) * w + (g.int(0, w - 1) if g.chance(0.4) else 0))}
        if mode == 'append':
            return {'k': 'set_data', 'mode': mode, 'bin': g.bits(g.pick([1, w - 1, w, w + 1, len(self.trail) and (w - len(self.trail)) or 1]) or 1)}
        return {'k': 'set_data', 'mode': mode, 'bin': '0' * g.pick([1, len(self.trail) or 1, w, w + 1])}

    def gscalar(self, g, opname):
        d = self.dt
        w = d.w
        if opname in ('lshift', 'rshift'):
            return g.pick([0, 1, 2, w - 1, w, w + 1, -1, 3])
        if d.cls == 'int':
            return g.pick([0, 1, 2, 3, -1, -2, 5, 7, 10, 2 ** w - 1, 2 ** (w - 1), -2 ** (w - 1), 255, w,
                           jval(0.5), jval(1.5), jval(2.0), jval(-0.0), True] + ([jval(float('nan')), jval(float('inf'))] if g.chance(0.1) else []))
        if d.cls == 'float':
            return g.pick([0, 1, 2, -1, 3, jval(0.5), jval(-1.5), jval(2.0), jval(1e-3), jval(1e4), jval(0.0), jval(-0.0),
                           jval(float('inf')), jval(float('nan')), 10])
        if opname in ('eq', 'ne'):
            return self.gexisting(g)
        if opname == 'add' and d.kind in ('hex', 'bin', 'oct'):
            return g.pick(['', '0', 1])
        return g.pick([0, 1, 2, -1, jval(1.0)])

    def garray_rhs(self, g, opname):
        d = self.dt
        n = len(self.items)
        r = g.r.random()
        if opname in ('lshift', 'rshift'):
            key = g.pick(['uint1', 'uint2', 'uint3', 'uint4', 'int3', 'uint5', 'bool', 'float16'])
        elif r < 0.2:
            key = d.key
        elif r < 0.88:
            key = pick_dtype(g, numeric=True)
        else:
            key = pick_dtype(g, numeric=False)
        if self.avoid and opname in ('eq', 'ne') and TABLE[key].ident != d.ident:
            key = d.key
        if g.chance(0.05):
            return {'arr': {'self': True}}
        m = n if g.chance(0.88) else g.pick([max(n - 1, 0), n + 1])
        d2 = TABLE[key]
        if d2.cls == 'int' and opname in ('truediv', 'floordiv', 'mod') and g.chance(0.7):
            # mostly non-zero divisors so that the quotient path is reached
            bits = ''.join((format(g.r.getrandbits(d2.w) | 1, f'0{d2.w}b') if d2.sem[1] != 'le' else g.bits(d2.w - 8) + format(g.r.getrandbits(8) | 1, '08b')) for _ in range(m))
        else:
            bits = g.bits(m * d2.w)
        if d2.w > 1 and g.chance(0.08):
            bits += g.bits(g.int(1, d2.w - 1))          # the operand has trailing bits of its own
        return {'arr': {'dt': key, 'bin': bits}}

    def g_op(self, g, inplace=False):
        k = 'iop' if inplace else 'op'
        r = g.r.random()
        w = self.dt.w
        if r < 0.16:
            vb = g.bits(w) if g.chance(0.9) else g.bits(g.pick([w + 1, max(w - 1, 0), 0]))
            return {'k': k, 'op': g.pick(BITWISE), 'rhs': {'bw': vb, 'as': g.pick(['bits', 'str', 'bytes'])}}
        ops = ARITH if inplace else (ARITH + CMP if r < 0.75 else CMP)
        opname = g.pick(ops)
        if opname in ('eq', 'ne') and g.chance(0.15) and not inplace:
            n = len(self.items)
            m = n if g.chance(0.8) else n + 1
            return {'k': k, 'op': opname, 'rhs': {'list': [self.gexisting(g) for _ in range(m)]}}
        if g.chance(0.4):
            return {'k': k, 'op': opname, 'rhs': self.garray_rhs(g, opname)}
        return {'k': k, 'op': opname, 'rhs': {'s': self.gscalar(g, opname)}}

    def g_iop(self, g):
        return self.g_op(g, inplace=True)

    def g_iop_unfit(self, g):
        """An in-place operator whose result does not fit at a chosen position (first / middle / last item)."""
        d = self.dt
        n = len(self.items)
        if n == 0:
            return None
        t = g.pick([0, n // 2, n - 1])
        if d.kind in ('u', 'i'):
            hi = 2 ** d.w - 1 if d.kind == 'u' else 2 ** (d.w - 1) - 1
            lo = 0 if d.kind == 'u' else -2 ** (d.w - 1)
            if g.chance(0.5):
                self.queue.append({'k': 'iop_unfit', 'op': 'add', 'rhs': {'s': 1}})
                return {'k': 'set', 'i': t, 'v': hi}
            self.queue.append({'k': 'iop_unfit', 'op': 'sub', 'rhs': {'s': 1}})
            return {'k': 'set', 'i': t, 'v': lo}
        if d.kind == 'bool':
            self.queue.append({'k': 'iop_unfit', 'op': 'add', 'rhs': {'s': 1}})
            return {'k': 'set', 'i': t, 'v': True}
        if d.cls == 'float':
            return {'k': 'iop_unfit', 'op': g.pick(['truediv', 'floordiv', 'mod']), 'rhs': {'s': g.pick([0, jval(0.0)])}}
        return {'k': 'iop_unfit', 'op': g.pick(['add', 'mul', 'sub']), 'rhs': {'s': g.pick([2, 1, 0])}}

    def g_rop(self, g):
        w = self.dt.w
        if g.chance(0.2):
            return {'k': 'rop', 'op': g.pick(BITWISE), 'rhs': {'bw': g.bits(w), 'as': g.pick(['str', 'bytes'])}}
        opname = g.pick(['add', 'sub', 'sub', 'mul'])
        if opname == 'sub' and self.avoid and self._scalar_trig('sub', 0, reflected=True) != self.tb():
            opname = 'add'
        s = self.gscalar(g, opname)
        if isinstance(s, str):
            s = 1
        return {'k': 'rop', 'op': opname, 'rhs': {'s': s}}

    def g_unary(self, g):
        return {'k': 'unary', 'op': g.pick(['neg', 'abs'])}

    def g_tofile(self, g):
        return {'k': 'tofile', 'via': g.pick(['file', 'bytesio', 'simwriter'])}

    def g_fromfile(self, g):
        w = self.dt.w
        items = g.int(0, 4)
        nbytes = (items * w + 7) // 8 + g.pick([0, 0, 1])
        data = bytes(g.r.getrandbits(8) for _ in range(nbytes))
        avail = nbytes * 8 // w
        n = g.pick([None, 0, 1, avail, max(avail - 1, 0), avail + 1, avail + 3])
        return {'k': 'fromfile', 'data': data.hex(), 'n': n, 'via': g.pick(['file', 'bytesio'])}

    def g_astype(self, g):
        return {'k': 'astype', 'dt2': pick_dtype(g, numeric=True if (self.dt.cls != 'other' and g.chance(0.8)) else None)}


QUICK_RUNS = 50000
THOROUGH_RUNS = 750000


# ---------------------------------------------------------------------------------------------------------
# harness-free reproduction script for a (minimised) event list
# ---------------------------------------------------------------------------------------------------------

def _pv(j):
    if isinstance(j, dict):
        if 'f' in j:
            return f"float({j['f']!r})"
        if 'b' in j:
            return repr(bytes.fromhex(j['b']))
        if 'bits' in j:
            return f"Bits(bin={j['bits']!r})"
        if 'bs' in j:
            return repr('0b' + j['bs'])
    return repr(j)


def _script_line(ev, n):
    k = ev.get('k')
    sl = lambda: ':'.join('' if ev.get(x) is None else str(ev.get(x)) for x in 'abc')
    vals = lambda: '[' + ', '.join(_pv(j) for j in ev.get('vals', [])) + ']'
    other = lambda d: f"_arr({d.get('dt2', d.get('dt'))!r}, {d.get('bin', '')!r})"
    if k == 'get':
        return f"print(a[{ev.get('i')}])"
    if k == 'getslice':
        return f"print(a[{sl()}])"
    if k == 'set':
        return f"a[{ev.get('i')}] = {_pv(ev.get('v'))}"
    if k in ('setslice', 'setslice_f'):
        if ev.get('src') == 'array' and k == 'setslice':
            return f"a[{sl()}] = {other(ev)}"
        if k == 'setslice_f':
            return f"a[{sl()}] = _dies({vals()}, {ev.get('fail_at')})"
        return f"a[{sl()}] = {vals()}"
    if k == 'del':
        return f"del a[{ev.get('i')}]"
    if k == 'delslice':
        return f"del a[{sl()}]"
    if k == 'append':
        return f"a.append({_pv(ev.get('v'))})"
    if k == 'insert':
        return f"a.insert({ev.get('i')}, {_pv(ev.get('v'))})"
    if k == 'pop':
        return "print(a.pop())" if ev.get('i') is None else f"print(a.pop({ev.get('i')}))"
    if k in ('reverse', 'byteswap', 'tolist', 'tobytes'):
        return f"print(a.{k}())"
    if k == 'count':
        return f"print(a.count({_pv(ev.get('v'))}))"
    if k == 'contains':
        return f"print({_pv(ev.get('v'))} in a)"
    if k in ('extend', 'extend_f'):
        src = ev.get('src', 'list')
        if k == 'extend_f':
            return f"a.extend(_dies({vals()}, {ev.get('fail_at')}))"
        if src == 'self':
            return "a.extend(a)"
        if src == 'array':
            return f"a.extend({other(ev)})"
        if src == 'arrayarray':
            return f"a.extend(array.array({ev.get('tc')!r}, {vals()}))"
        return f"a.extend({vals()})"
    if k == 'equals':
        if ev.get('other', 'array') == 'array':
            return f"print(a.equals({other(ev)}))"
        if ev.get('other') == 'aa':
            return f"print(a.equals(array.array({ev.get('tc')!r}, {vals()})))"
        return "print(a.equals('hello'))"
    if k == 'copy':
        return {'slice': 'c = a[:]', 'deepcopy': 'c = copy.deepcopy(a)'}.get(ev.get('how'), 'c = copy.copy(a)') + "; c.data.invert(); print(c)"
    if k == 'set_dtype':
        return f"a.dtype = {ev.get('dt2')!r}"
    if k == 'set_data':
        m, b = ev.get('mode', 'assign'), ev.get('bin', '')
        return {'append': f"a.data += Bits(bin={b!r})", 'trunc': f"del a.data[len(a.data) - min({len(b)}, len(a.data)):]"}.get(m, f"a.data = BitArray(bin={b!r})")
    if k == 'astype':
        return f"print(a.astype({ev.get('dt2')!r}))"
    if k == 'fromfile':
        nn = '' if ev.get('n') is None else f", {ev.get('n')}"
        return f"a.fromfile(io.BytesIO(bytes.fromhex({ev.get('data', '')!r})){nn})"
    if k == 'tofile':
        return "f = io.BytesIO(); a.tofile(f); print(f.getvalue())"
    if k == 'iter':
        return "print(list(reversed(a)))" if ev.get('how') == 'reversed' else "print(list(a))"
    if k == 'iter_start':
        return "it = iter(a)"
    if k == 'iter_next':
        return "print(next(it))"
    if k == 'cache_clear':
        return "# (every lru_cache of bitstring cleared here)"
    if k in ('op', 'iop', 'iop_unfit', 'rop'):
        rhs = ev.get('rhs') or {}
        op = ev.get('op')
        sym = SYM.get(op, op)
        if 'arr' in rhs:
            r = 'a' if rhs['arr'].get('self') else other(rhs['arr'])
        elif 'bw' in rhs:
            r = repr('0b' + rhs['bw']) if (rhs.get('as') != 'bits' or k == 'rop') else f"Bits(bin={rhs['bw']!r})"
        elif 'list' in rhs:
            r = '[' + ', '.join(_pv(j) for j in rhs['list']) + ']'
        else:
            r = _pv(rhs.get('s'))
        if k == 'rop':
            return f"print({r} {sym} a)"
        if k == 'op':
            return f"print(a {sym} {r})"
        return f"a {sym}= {r}"
    if k == 'unary':
        return "print(-a)" if ev.get('op') == 'neg' else "print(abs(a))"
    if k == 'len':
        return "print(len(a))"
    if k == 'props':
        return "print(a.data.bin, a.trailing_bits.bin, a.itemsize)"
    return f"# {k}"


def _script(self, events):
    """Harness-free reproduction: the Array is rebuilt from the init event and every recorded call is replayed."""
    cfg = events[0].get('cfg', {}) if events else {}
    lines = ["import array, copy, io", "from bitstring import Array, Bits, BitArray",
             "def _arr(dt, bits):\n    x = Array(dt); x.data = BitArray(bin=bits); return x"]
    if any(e.get('k') in ('extend_f', 'setslice_f') for e in events[1:]):
        lines.append("def _dies(items, k):\n    for i, x in enumerate(items):\n        if i == k: raise RuntimeError('producer died')\n        yield x\n    raise RuntimeError('producer died')")
    lines.append(f"a = _arr({cfg.get('dt')!r}, {cfg.get('init', '')!r}); print(a)")
    for i, ev in enumerate(events[1:]):
        lines.append(_script_line(ev, i))
    lines.append("print(a, a.data.bin)")
    return '\n'.join(lines)


EArray.script = _script
