"""E-CHAOS / C20 - well-typed misuse fails cleanly and never corrupts an object.

Reflection-driven: every public callable / property (and operator dunder) of the four classes, Array, Dtype and
pack is called with arguments drawn STRICTLY from the annotated type of each parameter, with adversarial values, in
programs on 1-4 live objects, under msb0 / lsb0, with faulting writers / producers / text streams, live generators
stepped as tasks, option and cache events in between.  The oracle is the transition-based invariant monitor of
DESIGN 2.5: nothing about WHICH allowed outcome occurs.  DESIGN 4/C20.
"""
from __future__ import annotations

import array
import inspect
import copy
import io
import pickle
import math

import bitarray as _ba

from .. import kernel, loader
from ..envs import SimWriter, FaultyIterable, InjectedProducerFault, InjectedIOError, InjectedClosed, SimFS
from ..kernel import Engine, call, canon

CLASSES = ('Bits', 'BitArray', 'ConstBitStream', 'BitStream')
IMMUTABLE = ('Bits', 'ConstBitStream')
DUNDERS = ('__getitem__', '__setitem__', '__delitem__', '__add__', '__radd__', '__mul__', '__rmul__', '__and__', '__rand__', '__or__', '__ror__',
           '__xor__', '__rxor__', '__invert__', '__lshift__', '__rshift__', '__iadd__', '__imul__', '__ilshift__', '__irshift__', '__iand__',
           '__ior__', '__ixor__', '__contains__', '__eq__', '__ne__', '__hash__', '__len__', '__bool__', '__iter__', '__copy__', '__str__',
           '__repr__', '__bytes__', '__lt__', '__neg__', '__abs__', '__sub__', '__rsub__', '__truediv__', '__floordiv__', '__mod__', '__isub__',
           '__itruediv__', '__ifloordiv__', '__imod__', '__le__', '__gt__', '__ge__')
LENGTH_CHANGERS = ('__setitem__', '__delitem__', '__iadd__', '__imul__', 'append', 'prepend', 'insert', 'overwrite', 'replace', 'clear', '__setitem__')
TOKENS = ['uint:8', 'u5', 'int:7', 'hex:8', 'hex', 'bin:3', 'bin', 'oct:6', 'float:32', 'floatle:16', 'bool', 'bits:5', 'bits', 'bytes:1', 'bytes', 'pad:3',
          'ue', 'se', 'uie', 'sie', 'uintle:16', 'intbe:24', 'uintne:16', 'e4m3mxfp', 'e5m2mxfp', 'p4binary', 'p3binary', 'bfloat', 'e3m2mxfp',
          'e2m1mxfp', 'e8m0mxfp', 'mxint', '>H', '<hb', '=I', 'uint:n', 'int', 'uint', 'float', 'uint:0', 'uint:-1', 'foo', 'u', '2*u4', '3*(bin:1, pad:1)',
          'hex:7', 'float:12', 'bool:2', '', ',', 'uint:8=3', '0xff', '2*(', 'bytes:0', 'bits:0', 'pad:0', 'bin:0', 'uint:1000', 'pad', 'bool, bool', 'intle:8',
          'pad:99999999999999999999999', 'uint:18446744073709551616', 'bits:99999999999999999999', 'hex:340282366920938463463374607431768211456',
          'x*(u8), 3*(u8)', '2*(u8), y*(bool)', '0*(u8)', '2*(2*(bool))', '3*bool, n*(u4)', '99999999999999999999*u8', '0*u8', '-1*u8', 'x*u8',
          '>99999999999999999999h', '<2h99999999999999999999b', '>0h']
BAD_STRINGS = ['', ' ', '0x', '0b2', '0xfg', 'uint:8=300', 'foo=1', '=', ':', '0o8', '1*', '*3', '2*(0b1', 'uint:8=,', 'ue=-1', 'float:32=abc', '0b1,,0b0',
               'int:0=0', '0X_F', 'bin=', 'bytes:1=a', 'bits:3=0b1', 'pad:-1', 'uint8=1, ', '()',
               'x*(0b1),3*(0b1)', 'a*(0b1), 2*(0x1)', '2*(0b1),x*(3*(0b1))', '(0b1)', '*(0b1)', '2*(0b1))', '-1*(0b1)', '99999999999999999999*(0b1)',
               'pad:99999999999999999999999', 'uint:99999999999999999999999=1', '0b1, 2*(x*(0b1)), 3*(0b0)', '99999999999999999999*uint:8=1', '99999999999999999999*0b1',
               '-1*uint:8=300', '0*0b1']
FLOATS = [0.0, -0.0, 1.5, -2.25, 1e10, 65504.0, 65520.0, 1e39, -1e39, 3.4e38, 'nan', 'inf', '-inf', 5e-324, 448.0, 57344.0, 0.001]


class FailingText:
    """TextIO whose k-th write raises OSError (S3)."""

    def __init__(self, fail_at):
        self.n = 0
        self.fail_at = fail_at
        self.buf = []

    def write(self, s):
        self.n += 1
        if self.fail_at is not None and self.n >= self.fail_at:
            raise InjectedIOError(5, 'injected text stream failure')
        self.buf.append(s)
        return len(s)


class EChaos(Engine):
    prop = 'C20'
    name = 'E-CHAOS'
    level = 'exploration'
    fault_kinds = ('option', 'cache_clear', 'step', 'faulty')
    mutating_kinds = ('call', 'setprop', 'ctor', 'pack', 'dtype')
    rule = ('seeded programs of 20-50 calls on 1-4 live objects (four classes, Array, Dtype); the member called and the kinds of its '
            'arguments come from reflection (sorted dir(), inspect.signature, annotation strings); values are adversarial (negative, '
            'zero, around len, 2^31, 2^63, empty, malformed token strings, faulty producers / writers / text streams, the object '
            'itself). Non-trivial = at least one call AND at least one option change / cache clear / generator step / injected '
            'producer-writer-stream fault; distinct = distinct event-list digest.')
    stub_components = ['SimWriter / FailingText (writers that fail on the k-th write)', 'FaultyIterable (producer that dies at element k)',
                       'SimFS (real files in a scratch directory)']
    assumptions = ['arguments are drawn from the documented (annotated) types only; values of undocumented types are not generated',
                   'TypeError, ValueError (= CreationError = InterpretError), IndexError (ReadError), bitstring.Error (ByteAlignError), OSError '
                   '(file / writer took part), EOFError (Array.fromfile) and the injected fault\'s own exception are clean failures',
                   'allocations are capped (repeat counts, zero-bit constructors) so that no call needs more than a few MiB']
    expected_probes = ('call_raised_documented', 'call_ok', 'immutable_checked', 'stream_pos_checked', 'generator_stepped', 'generator_stepped_after_toggle',
                       'faulty_producer_fired', 'writer_fault_fired', 'lsb0_call', 'self_as_argument', 'setprop', 'array_call', 'dtype_call', 'pack_call',
                       'text_stream_fault_fired')

    def plan(self, tier, base_seed):
        return self.seeded_plan(tier, base_seed, quick=(24000, 30), thorough=(1600000, 50))

    def config(self, g, desc):
        objs = []
        for _ in range(g.int(1, 4)):
            k = g.wpick([('Bits', 2), ('BitArray', 3), ('ConstBitStream', 2), ('BitStream', 3), ('Array', 2)])
            if k == 'Array':
                objs.append({'kind': 'Array', 'dtype': g.pick(['uint8', 'int5', 'float16', 'hex2', 'bin3', 'bool', '>H', 'bfloat', 'e4m3mxfp', 'bytes2', 'bits3', 'u1', 'floatle32', 'uintle16']),
                             'bits': g.bits(g.pick([0, 8, 16, 24, 33, 64]))})
            elif k in ('ConstBitStream', 'BitStream') and g.chance(0.3):
                # a wire of exp-Golomb codewords whose last codeword is cut short (by 1 .. all-but-one of its bits)
                words = []
                for _ in range(g.int(1, 4)):
                    b_ = bin(g.pick([0, 1, 2, 3, 4, 5, 6, 7, 14, 30, 100]) + 1)[2:]
                    words.append('0' * (len(b_) - 1) + b_)
                last = words[-1]
                cut = g.int(1, max(len(last) - 1, 1)) if len(last) > 1 else 0
                objs.append({'kind': k, 'bits': ''.join(words[:-1]) + last[:len(last) - cut], 'pos': 0, 'golomb': len(words)})
            else:
                objs.append({'kind': k, 'bits': g.bits(g.length(70)), 'pos': g.int(0, 8)})
        return {'avoid': bool(desc.get('avoid')), 'objs': objs, 'lsb0': g.chance(0.3), 'bytealigned': g.chance(0.15),
                'w_opt': g.pick([0, 1, 2]), 'w_step': g.pick([0, 1, 2]), 'w_fault': g.pick([0, 1, 2])}

    # -------------------------------------------------------------------------------------------------
    def start(self, cfg):
        self.cfg = cfg
        self.R = loader.main()
        self.R.reset()
        self.B = B = self.R.pkg
        self.fs = None
        B.options.lsb0 = bool(cfg.get('lsb0'))
        B.options.bytealigned = bool(cfg.get('bytealigned'))
        self.opts = self.R.options_tuple()
        self.objs = []
        for o in cfg.get('objs', [])[:4]:
            bits = ''.join(c for c in str(o.get('bits', '')) if c in '01')
            if o.get('kind') == 'Array':
                st, a = call(B.Array, str(o.get('dtype', 'uint8')))
                a = a if st == 'ok' else B.Array('uint8')
                a.data = B.BitArray(bin=bits)
                self.objs.append(a)
            else:
                k = o.get('kind') if o.get('kind') in CLASSES else 'Bits'
                x = getattr(B, k)(bin=bits)
                if kernel.is_stream(x):
                    kernel.set_pos(x, min(int(o.get('pos', 0)), len(bits)))
                self.objs.append(x)
        if not self.objs:
            self.objs.append(B.BitArray('0x0f'))
        self.snap = [self._snapshot(x) for x in self.objs]
        self.gens = []
        self.toggled_since = []
        if not _MEMBERS:
            for c in CLASSES + ('Array', 'Dtype'):
                _MEMBERS[c] = [m for m in sorted(dir(getattr(B, c))) if not m.startswith('_') or m in DUNDERS]
        self.members = _MEMBERS
        return {'n': len(self.objs), 'members': {c: len(v) for c, v in sorted(self.members.items())}}

    def cleanup(self):
        try:
            self.R.reset()
        except Exception:
            pass
        if self.fs:
            self.fs.close()

    def _snapshot(self, x):
        if kernel.is_bits(x):
            return kernel.safe_bin(x)
        return None

    # ---- argument specs --------------------------------------------------------------------------------
    def _int_spec(self, g, n, cap=None):
        v = g.pick([-2 ** 63, -2 ** 31, -n - 1, -n, -1, 0, 1, 2, 7, 8, n - 1, n, n + 1, 2 ** 31, 10 ** 6, g.int(0, max(n, 1)), g.int(-n - 2, n + 2)])
        if cap is not None:
            v = max(min(v, cap), -cap)
        return {'t': 'int', 'v': v}

    def _bits_spec(self, g, n):
        k = g.r.random()
        if k < 0.1:
            return {'t': 'self'}
        if k < 0.2:
            return {'t': 'obj', 'i': g.int(0, 3)}
        if k < 0.3:
            return {'t': 'str', 'v': g.pick(BAD_STRINGS)}
        bits = g.bits(g.pick([0, 1, 3, 8, 8, 16, n, n, 33, 2000]))
        form = g.pick(['str', 'str', 'Bits', 'BitArray', 'ConstBitStream', 'BitStream', 'bytes', 'bytearray', 'bools', 'bitarray', 'bytesio', 'memoryview', 'array', 'faulty_bools', 'tuple',
                       'memoryview_strided', 'memoryview_reversed', 'memoryview_wide', 'bitarray_le', 'gen_bools'])
        return {'t': 'bits', 'form': form, 'bin': bits, 'fail_at': g.int(0, max(len(bits), 1))}

    def _iter_spec(self, g, n):
        form = g.pick(['list', 'tuple', 'range', 'faulty', 'gen', 'set_like', 'empty', 'int'])
        items = [g.pick([-n - 1, -n, -1, 0, 1, n - 1, n, n + 1, g.int(0, max(n - 1, 0))]) for _ in range(g.int(0, 5))]
        return {'t': 'iter', 'form': form, 'items': items, 'fail_at': g.int(0, 5), 'range': [g.pick([0, -1, 2, n]), g.pick([0, n, n + 2, -1, 3, 2 ** 63, 10 ** 30]), g.pick([1, 2, -1, 3])]}

    def _spec_for(self, g, ann, pname, n, member, cname=''):
        a = str(ann)
        if pname in ('stream',) or 'TextIO' in a:
            return {'t': 'textio', 'fail_at': g.pick([None, None, 1, 2, 3])}
        if 'BinaryIO' in a:
            return {'t': 'writer', 'plan': g.pick([None, None, {'at': 1, 'kind': 'error'}, {'at': 1, 'kind': 'torn', 'keep': 0}, {'at': 1, 'kind': 'closed'}, 'bytesio', 'file']),
                    'data': g.bits(g.pick([0, 8, 16, 40]))}
        if pname in ('fmt',) and member in ('pp',):
            return g.pick([{'t': 'none'}, {'t': 'str', 'v': g.pick(['bin', 'hex', 'oct', 'bytes', 'bin, hex', 'hex:16', 'bin:0', 'u8', 'float16', 'pad:2', 'ue', 'bool', 'bits:3', 'hex, hex, hex', 'uint:3, hex:4', ''] + TOKENS[:6])}])
        if pname == 'sep':
            return {'t': 'str', 'v': g.pick([' ', '', '_', ', ', '\n', 'xx'])}
        if pname == 'width':
            return {'t': 'int', 'v': g.pick([120, 0, 1, 3, -5, 10, 2 ** 20, 40])}
        if pname == 'fmt' and member in ('read', 'peek'):
            return g.pick([{'t': 'int', 'v': g.pick([0, 1, 8, n, n + 1, -1, 2 ** 31])}, {'t': 'str', 'v': g.pick(TOKENS)}, {'t': 'dtype', 'token': g.pick(TOKENS[:30])}])
        if pname == 'fmt' and member in ('readlist', 'peeklist', 'unpack'):
            return g.pick([{'t': 'str', 'v': ', '.join(g.pick(TOKENS) for _ in range(g.int(1, 3)))},
                           {'t': 'list', 'items': [g.pick([{'t': 'str', 'v': g.pick(TOKENS)}, {'t': 'int', 'v': g.pick([0, 1, 5, -1, n + 1])}]) for _ in range(g.int(0, 3))]}])
        if pname == 'fmt' and member == 'byteswap':
            return g.pick([{'t': 'none'}, {'t': 'int', 'v': g.pick([0, 1, 2, 3, -1, 2 ** 31])}, {'t': 'str', 'v': g.pick(['h', '2h', '<bh', '>q', 'x', '', '0h', '3b', 'hh', '@I', '99999999999999999999h', '>99999999999999999999b2h'])}, self._iter_spec(g, 4)])
        if pname in ('dtype', 'new_dtype') or 'Dtype' in a and 'str' in a:
            return g.pick([{'t': 'str', 'v': g.pick(TOKENS)}, {'t': 'dtype', 'token': g.pick(TOKENS[:30])}])
        if 'BitsType' in a or pname in ('bs', 'prefix', 'suffix', 'delimiter', 'old', 'new') or a in ("'Bits'", 'Bits'):
            return self._bits_spec(g, n)
        if pname in ('sequence',):
            return {'t': 'list', 'items': [self._bits_spec(g, n) for _ in range(g.int(0, 3))]}
        if 'Iterable' in a and 'int' in a and 'Union[int' in a.replace(' ', ''):
            return g.pick([self._int_spec(g, n), self._iter_spec(g, n), {'t': 'none'}])
        if 'Iterable' in a:
            return g.pick([self._iter_spec(g, n), {'t': 'none'}] if 'Optional' in a else [self._iter_spec(g, n)])
        if 'slice' in a:
            return g.pick([{'t': 'slice', 'a': g.opt_pos(n), 'b': g.opt_pos(n), 'c': g.pick([None, 1, -1, 2, -2, 0, 2 ** 31, 7])}, self._int_spec(g, n)])
        if a in ('int', "'int'") or 'Optional[int]' in a or pname in ('n', 'bits', 'pos', 'start', 'end', 'count', 'i', 'length', 'offset'):
            cap = None
            if member in ('__mul__', '__rmul__', '__imul__'):
                if n == 0 and cname != 'Array':
                    # nothing to repeat: any count is feasible for an empty bitstring
                    return {'t': 'int', 'v': g.pick([0, 1, -1, 7, 2 ** 31, 2 ** 63 - 1, 2 ** 63, 2 ** 64, 10 ** 30])}
                cap = max(1, min(1000, 200000 // max(n, 1)))
            if cname == 'Array':
                cap = 10 ** 6 if member not in ('__lshift__', '__ilshift__', '__rshift__', '__irshift__', '__mul__', '__imul__', '__rmul__') else 4096
            if member in ('cut',) and pname == 'bits':
                return {'t': 'int', 'v': g.pick([-1, 0, 1, 3, 8, n, n + 1, 2 ** 31])}
            if 'Optional' in a and g.chance(0.3):
                return {'t': 'none'}
            return self._int_spec(g, n, cap)
        if 'bool' in a:
            return g.pick([{'t': 'bool', 'v': True}, {'t': 'bool', 'v': False}] + ([{'t': 'none'}] if 'Optional' in a else []))
        if 'float' in a and 'int' in a:
            if member in ('__lshift__', '__ilshift__', '__rshift__', '__irshift__'):
                return {'t': 'int', 'v': g.pick([0, 1, -1, 2, 7, 8, 64, 4096])}
            return g.pick([{'t': 'int', 'v': g.pick([0, 1, -1, 2, 255, 256, -129, 2 ** 40, 3])}, {'t': 'float', 'v': g.pick(FLOATS)}, {'t': 'arr', 'i': g.int(0, 3)}])
        if a in ('str', "'str'"):
            return {'t': 'str', 'v': g.pick(TOKENS + BAD_STRINGS)}
        # Any / ElementType / value
        return g.pick([{'t': 'int', 'v': g.pick([0, 1, -1, 2, 255, 256, 2 ** 40, -2 ** 40])}, {'t': 'bool', 'v': g.chance(0.5)}, {'t': 'float', 'v': g.pick(FLOATS)},
                       {'t': 'str', 'v': g.pick(['0', '1', 'ab', '0xff', '101', 'True', ''])}, {'t': 'bytes', 'hex': g.pick(['', '00', 'ff01', '414243'])},
                       self._bits_spec(g, n), {'t': 'none'}])

    def _value_for_dtype(self, g, name):
        """Value of the dtype's return type, for property assignment and Array elements."""
        B = self.B
        st, d = call(B.Dtype, name)
        rt = d.return_type if st == 'ok' else int
        if rt is int:
            return {'t': 'int', 'v': g.pick([0, 1, -1, 2, 127, 128, 255, 256, -128, -129, 2 ** 31, 2 ** 64, -2 ** 63, 10 ** 30])}
        if rt is float:
            if g.chance(0.15):
                # an integer where a float is wanted is an ordinary numeric value - also one no float can hold
                return {'t': 'int', 'v': g.pick([0, 1, -3, 2 ** 53 + 1, 2 ** 1023, -2 ** 1023, 10 ** 400, -10 ** 400])}
            return {'t': 'float', 'v': g.pick(FLOATS)}
        if rt is str:
            return {'t': 'str', 'v': g.pick(['0', '1', 'ab', '0xff', '0b101', '101', 'fg', '', '7', '0o17', ' a_b ', '0x'])}
        if rt is bytes:
            return {'t': 'bytes', 'hex': g.pick(['', '00', 'ff01', '414243'])}
        if rt is bool:
            return g.pick([{'t': 'bool', 'v': True}, {'t': 'bool', 'v': False}, {'t': 'int', 'v': 2}, {'t': 'str', 'v': 'True'}])
        return self._bits_spec(g, 8)

    # ---- generation --------------------------------------------------------------------------------------
    def gen(self, g):
        cfg = self.cfg
        r = g.r.random()
        if r < 0.03 * cfg['w_opt']:
            name = g.pick(['lsb0', 'lsb0', 'bytealigned', 'mxfp_overflow', 'no_color'])
            return {'k': 'option', 'name': name, 'value': g.pick(['saturate', 'overflow', 'other']) if name == 'mxfp_overflow' else g.chance(0.5)}
        if r < 0.03 * cfg['w_opt'] + 0.05 * cfg['w_step'] and self.gens:
            return {'k': 'step', 'gen': g.int(0, len(self.gens) - 1), 'times': g.pick([1, 1, 3])}
        if r < 0.03 * cfg['w_opt'] + 0.05 * cfg['w_step'] + 0.02:
            return {'k': 'cache_clear'}
        kind = g.wpick([('call', 10), ('setprop', 2), ('getprop', 1), ('ctor', 2), ('pack', 1), ('dtype', 1), ('dup', 0.5)])
        i = g.int(0, len(self.objs) - 1)
        if kind == 'dup':
            # a copy made by the copy / pickle protocols is one more object of the world: each of the two stays valid whatever is done to the other
            return {'k': 'dup', 'obj': i, 'how': g.pick(['copy', 'deepcopy', 'deepcopy', 'pickle', 'deepcopy_in_list']), 'slot': g.int(0, 3)}
        x = self.objs[i]
        cname = type(x).__name__
        n = len(x) if kernel.is_bits(x) else len(x.data)
        alen = call(len, x)
        alen = alen[1] if alen[0] == 'ok' else 0
        if kind == 'call' and kernel.is_stream(x) and g.chance(0.08):
            # several variable-length codes in one list read: the last may be truncated
            k_ = g.int(1, 5)
            code = g.pick(['ue', 'se', 'ue', 'uie', 'sie'])
            return {'k': 'call', 'obj': i, 'member': g.pick(['readlist', 'readlist', 'peeklist', 'unpack']), 'args': [{'t': 'str', 'v': ', '.join([code] * k_)}], 'kwargs': {}}
        if kind == 'call' and kernel.is_stream(x) and g.chance(0.12):
            return {'k': 'setprop', 'obj': i, 'name': 'pos', 'value': {'t': 'int', 'v': g.pick([n, n, n - 1, n - 7, n // 2])}}
        if kind == 'call':
            member = g.pick(self.members[cname])
            if cname in ('BitArray', 'BitStream') and g.chance(0.3):
                member = g.pick(LENGTH_CHANGERS)
            attr = inspect.getattr_static(type(x), member, None)
            fn = getattr(type(x), member, None)
            if isinstance(attr, property) or not callable(fn):
                return {'k': 'getprop', 'obj': i, 'name': member}
            args, kwargs = [], {}
            params = _params(cname, member, fn)
            skipped = False
            for p in params:
                if p.kind in (p.VAR_POSITIONAL,):
                    continue
                if p.kind == p.VAR_KEYWORD:
                    if g.chance(0.3):
                        kwargs[g.pick(['n', 'x', 'length'])] = {'t': 'int', 'v': g.pick([0, 1, 8, -1])}
                    continue
                if p.default is not p.empty and g.chance(0.45):
                    skipped = True
                    continue
                if skipped and p.kind == p.POSITIONAL_ONLY:
                    break
                if cname == 'Array' and member in ('__mul__', '__rmul__', '__imul__'):
                    # items of a bits/bin/hex Array are sequences: a huge factor is an allocation bomb, not misuse
                    # (an Array operand is documented for the non-reflected forms only)
                    spec = g.pick([{'t': 'int', 'v': g.pick([0, 1, -1, 2, 3, 255, 1000])}, {'t': 'float', 'v': g.pick([0.0, 1.5, -2.0, 0.001, 1000.0])}]
                                  + ([{'t': 'arr', 'i': g.int(0, 3)}] if member != '__rmul__' else []))
                elif cname == 'Array' and member in ('__radd__', '__rsub__', '__rand__', '__ror__', '__rxor__'):
                    spec = self._value_for_dtype(g, x.dtype.name)
                elif cname == 'Array' and x.dtype.name == 'bytes' and p.name in ('x', 'value', 'other'):
                    # bytes(n) of an int n allocates n bytes: only values of the dtype's own type for a bytes Array
                    spec = self._value_for_dtype(g, 'bytes')
                elif cname == 'Array' and member in ('__lshift__', '__ilshift__', '__rshift__', '__irshift__'):
                    # (no Array operand: its items may be 2**40 and more, and 1 << 2**40 is an allocation bomb)
                    spec = {'t': 'int', 'v': g.pick([0, 1, -1, 2, 7, 8, 64, 4096])}
                elif cname == 'Array' and p.name in ('x', 'value', 'other') and member not in ('equals',):
                    spec = self._value_for_dtype(g, x.dtype.name) if g.chance(0.7) else self._spec_for(g, p.annotation, p.name, n, member, cname)
                elif cname == 'Array' and p.name == 'iterable':
                    spec = g.pick([{'t': 'list', 'items': [self._value_for_dtype(g, x.dtype.name) for _ in range(g.int(0, 3))]}, {'t': 'arr', 'i': g.int(0, 3)},
                                   {'t': 'pyarray', 'code': g.pick(['B', 'H', 'f', 'b']), 'vals': [1, 2]}, {'t': 'faulty_vals', 'items': [1, 0, 1], 'fail_at': g.int(0, 3)},
                                   {'t': 'str', 'v': 'abc'}])
                elif cname == 'Array' and p.name == 'key':
                    spec = g.pick([{'t': 'int', 'v': g.pick([-alen - 1, -1, 0, 1, alen, alen - 1])}, {'t': 'slice', 'a': g.opt_pos(alen), 'b': g.opt_pos(alen), 'c': g.pick([None, 1, -1, 2, 0])}])
                elif cname == 'Array' and p.name == 'f':
                    spec = {'t': 'writer', 'plan': g.pick([None, {'at': 1, 'kind': 'error'}, 'bytesio', 'file', 'bytesio_short']), 'data': g.bits(g.pick([0, 8, 16, 40]))}
                else:
                    spec = self._spec_for(g, p.annotation, p.name, n, member, cname)
                if p.kind == p.KEYWORD_ONLY or (skipped and p.kind != p.POSITIONAL_ONLY) or (p.default is not p.empty and p.kind != p.POSITIONAL_ONLY and g.chance(0.3)):
                    skipped = True
                    kwargs[p.name] = spec
                else:
                    args.append(spec)
            if member == '__setitem__' and cname != 'Array' and len(args) == 2 and g.chance(0.5):
                args[1] = {'t': 'int', 'v': g.pick([0, 1, -1, 2, 255, -3, 2 ** 40])}
            return {'k': 'call', 'obj': i, 'member': member, 'args': args, 'kwargs': kwargs}
        if kind == 'setprop' or kind == 'getprop':
            name = g.pick(['uint', 'int', 'hex', 'bin', 'oct', 'bytes', 'float', 'floatle', 'uintle', 'intbe', 'bool', 'bits', 'ue', 'se', 'uie', 'sie', 'bfloat', 'e4m3mxfp',
                           'p4binary', 'u8', 'i5', 'f16', 'h', 'b', 'uint12', 'pos', 'bytepos', 'bitpos', 'len', 'length', 'data', 'dtype', 'itemsize', 'trailing_bits',
                           'e2m1mxfp', 'mxint', 'e8m0mxfp', 'pad', 'bytes2', 'foo', 'uint0', 'float7', 'intne', 'floatne'])
            if kind == 'getprop':
                return {'k': 'getprop', 'obj': i, 'name': name}
            if name in ('pos', 'bitpos', 'bytepos'):
                val = self._int_spec(g, n)
            elif name == 'data':
                val = {'t': 'bits', 'form': 'BitArray', 'bin': g.bits(g.pick([0, 8, 12, 33, 64]))}
            elif name == 'dtype':
                val = {'t': 'str', 'v': g.pick(TOKENS)}
            else:
                base = ''.join(c for c in name if not c.isdigit())
                val = self._value_for_dtype(g, {'u': 'uint', 'i': 'int', 'f': 'float', 'h': 'hex', 'b': 'bin'}.get(base, base) if base not in ('foo',) else 'uint')
            return {'k': 'setprop', 'obj': i, 'name': name, 'value': val}
        if kind == 'ctor':
            cls = g.pick(CLASSES + ('Array',))
            if cls == 'Array':
                dspec = g.pick([{'t': 'str', 'v': g.pick(TOKENS)}, {'t': 'dtype', 'token': g.pick(TOKENS[:30])},
                                {'t': 'dtype', 'token': g.pick(['e4m3mxfp', 'e5m2mxfp', 'e3m2mxfp', 'e2m1mxfp', 'p4binary', 'p3binary', 'mxint', 'float16', 'bfloat', 'uint8', 'int5', 'e8m0mxfp']),
                                 'scale': g.pick(['auto', 'auto', 2, 0.5, 0, -1, 2 ** 70])}])
                if dspec.get('scale') == 'auto' and g.chance(0.8):
                    fl = [g.pick(FLOATS + [0.0, 0, 1, -3, 2 ** 70, 1e-320]) for _ in range(g.int(0, 4))]
                    return {'k': 'ctor', 'cls': 'Array', 'dtype': dspec, 'init': g.pick([{'t': 'floats', 'vals': fl}, {'t': 'floats', 'vals': fl, 'as': 'iter'}, {'t': 'floats', 'vals': fl, 'as': 'tuple'}]),
                            'trailing': {'t': 'none'}, 'slot': g.int(0, 3)}
                return {'k': 'ctor', 'cls': 'Array', 'dtype': dspec,
                        'init': g.pick([{'t': 'none'}, {'t': 'int', 'v': g.pick([0, 3, -1, 1000])}, self._bits_spec(g, 16), {'t': 'typed_list', 'n': g.int(0, 3), 'seed': g.int(0, 2 ** 30)},
                                        {'t': 'arr', 'i': 0}, {'t': 'pyarray', 'code': 'H', 'vals': [1, 2]}, {'t': 'writer', 'plan': 'file', 'data': g.bits(24)}]),
                        'trailing': g.pick([{'t': 'none'}, {'t': 'none'}, self._bits_spec(g, 3)]), 'slot': g.int(0, 3)}
            how = g.pick(['auto', 'auto', 'kw', 'kw', 'none', 'file'])
            ev = {'k': 'ctor', 'cls': cls, 'how': how, 'slot': g.int(0, 3)}
            if how == 'auto':
                ev['auto'] = g.pick([self._bits_spec(g, 16), {'t': 'int', 'v': g.pick([0, 1, 8, -1, 10 ** 6, 2 ** 63, 2 ** 64, 10 ** 30])}, {'t': 'writer', 'plan': 'file', 'data': g.bits(24)},
                                     {'t': 'writer', 'plan': 'bufreader_bytesio', 'data': g.bits(16)}, {'t': 'float', 'v': 1.5}])
            if how == 'kw':
                name = g.pick(['uint', 'int', 'hex', 'bin', 'oct', 'bytes', 'float', 'floatle', 'uintle', 'intbe', 'bool', 'bits', 'ue', 'se', 'uie', 'sie', 'bfloat', 'e4m3mxfp', 'p4binary',
                               'u8', 'uint12', 'i', 'foo', 'auto', 'bitarray', 'filename', 'pad', 'e2m1mxfp', 'bytes2'])
                base = ''.join(c for c in name if not c.isdigit())
                if name == 'bitarray':
                    ev['kwv'] = {'t': 'bits', 'form': 'bitarray', 'bin': g.bits(12)}
                elif name == 'filename':
                    ev['kwv'] = {'t': 'path', 'exists': g.chance(0.6), 'data': g.bits(g.pick([0, 8, 24]))}
                else:
                    ev['kwv'] = self._value_for_dtype(g, {'u': 'uint', 'i': 'int'}.get(base, base) if base not in ('foo', 'auto') else 'uint')
                ev['kw'] = name
            if how == 'file':
                ev['kw'] = 'filename'
                ev['kwv'] = {'t': 'path', 'exists': g.chance(0.7), 'data': g.bits(g.pick([0, 8, 24, 40]))}
            if g.chance(0.5):
                ev['length'] = g.pick([None, 0, 1, 8, 12, 16, 32, -1, 64, 10 ** 6, 2 ** 63, 2 ** 64, 10 ** 30, -10 ** 30])
            if g.chance(0.3):
                ev['offset'] = g.pick([None, 0, 1, 8, -1, 100])
            if cls in ('ConstBitStream', 'BitStream') and g.chance(0.3):
                ev['pos'] = g.pick([0, 1, -1, 8, 100, -100])
            return ev
        if kind == 'pack' and g.chance(0.35):
            k_ = g.pick([1, 1, 2])
            toks = [g.pick(['bits', 'bits', 'bits:' + str(g.pick([0, 1, 8, n]))]) for _ in range(k_)]
            vals = [g.pick([{'t': 'obj', 'i': g.int(0, 3)}, {'t': 'obj', 'i': g.int(0, 3)}, {'t': 'self'}, {'t': 'str', 'v': g.pick(['0xff', '0b101', '0x0f0f', ''])},
                            {'t': 'bits', 'form': g.pick(['Bits', 'ConstBitStream', 'BitArray']), 'bin': g.bits(g.pick([1, 8, 16]))}]) for _ in range(k_)]
            return {'k': 'pack', 'fmt': ', '.join(toks), 'vals': vals, 'kw': {}, 'slot': g.int(0, 3)}
        if kind == 'pack':
            toks = [g.pick(TOKENS) for _ in range(g.int(0, 3))]
            vals = []
            for t in toks:
                # the value for each token is of the token's own type (count may still be wrong on purpose)
                base = t.split(':')[0].split('=')[0].strip('0123456789*() ,')
                if '=' in t or t.startswith(('0x', 'pad')) or not base:
                    continue
                vals.append(self._value_for_dtype(g, base) if call(self.B.Dtype, base)[0] == 'ok' else {'t': 'int', 'v': g.pick([0, 1, 5])})
            if g.chance(0.15) and vals:
                vals.pop()
            if g.chance(0.1):
                vals.append({'t': 'int', 'v': 1})
            return {'k': 'pack', 'fmt': ', '.join(toks) if g.chance(0.8) else [t for t in toks], 'vals': vals,
                    'kw': {'n': g.pick([0, 1, 8, -1, '8', 'x'])} if g.chance(0.3) else {}, 'slot': g.int(0, 3)}
        # dtype: the value built / parsed is of the dtype's own value type
        tok = g.pick(TOKENS)
        tbase = tok.split(':')[0].split('=')[0].strip('0123456789*() ,<>=@')
        tval = self._value_for_dtype(g, tbase) if (tbase and call(self.B.Dtype, tbase)[0] == 'ok') else {'t': 'int', 'v': g.pick([0, 1, 5, -1])}
        # (a scale is documented for numeric interpretations; an out-of-the-ordinary one goes to numeric dtypes only)
        st_d, d_ = call(self.B.Dtype, tbase) if tbase else ('exc', None)
        numeric = st_d == 'ok' and d_.return_type in (int, float)
        scales = [None, None, 1, 2.0, 0, -1, 0.5] + ([10 ** 400, -10 ** 400, 2 ** 1024, 1e308, 5e-324, 'inf', 'nan'] if numeric else [])
        return {'k': 'dtype', 'token': g.pick([{'t': 'str', 'v': tok}, {'t': 'dtype', 'token': tok}]), 'length': g.pick([None, None, 0, 1, 8, 16, -1, 7]),
                'scale': g.pick(scales), 'then': g.pick(['build', 'parse', 'str', 'str', 'props']),
                'value': tval, 'pvalue': {'t': 'bits', 'form': g.pick(['str', 'Bits', 'BitArray', 'bytes']), 'bin': g.bits(g.pick([0, 1, 8, 16, 32, 64, 7]))}}

    # ---- decoding of argument specs ------------------------------------------------------------------------
    def _dec(self, spec, x, used):
        B = self.B
        if not isinstance(spec, dict):
            return spec
        t = spec.get('t')
        if t == 'none':
            return None
        if t == 'int':
            v = spec.get('v', 0)
            return v if isinstance(v, int) and not isinstance(v, bool) else 0
        if t == 'bool':
            return bool(spec.get('v'))
        if t == 'float':
            v = spec.get('v', 0.0)
            return float(v) if isinstance(v, (str, int, float)) else 0.0
        if t == 'str':
            return str(spec.get('v', ''))
        if t == 'bytes':
            try:
                return bytes.fromhex(str(spec.get('hex', '')))
            except ValueError:
                return b''
        if t == 'self':
            self.probe('self_as_argument')
            return x
        if t == 'obj':
            return self.objs[int(spec.get('i', 0)) % len(self.objs)]
        if t == 'arr':
            arrs = [o for o in self.objs if kernel.is_array(o)]
            return arrs[int(spec.get('i', 0)) % len(arrs)] if arrs else B.Array('uint8', [1, 2])
        if t == 'pyarray':
            try:
                return array.array(str(spec.get('code', 'B')), spec.get('vals', [1]))
            except (TypeError, ValueError, OverflowError):
                return array.array('B', [1])
        if t == 'dtype':
            sc = spec.get('scale')
            if sc is not None and (sc == 'auto' or (isinstance(sc, (int, float)) and not isinstance(sc, bool))):
                st, d = call(B.Dtype, str(spec.get('token', 'uint8')), scale=sc)
            else:
                st, d = call(B.Dtype, str(spec.get('token', 'uint8')))
            return d if st == 'ok' else str(spec.get('token', 'uint8'))
        if t == 'slice':
            return slice(spec.get('a'), spec.get('b'), spec.get('c'))
        if t == 'list':
            return [self._dec(s, x, used) for s in spec.get('items', [])]
        if t == 'floats':
            vals = [float(v) if isinstance(v, (str, float)) else v for v in spec.get('vals', []) if isinstance(v, (str, int, float)) and not isinstance(v, bool)][:6]
            return iter(vals) if spec.get('as') == 'iter' else tuple(vals) if spec.get('as') == 'tuple' else vals
        if t == 'typed_list':
            d = getattr(self, '_ctor_dtype', None)
            name = d.name if kernel.is_dtype(d) else 'uint'
            gg = kernel.Gen(int(spec.get('seed', 0)) if isinstance(spec.get('seed', 0), int) else 0)
            return [self._dec(self._value_for_dtype(gg, name), x, used) for _ in range(min(int(spec.get('n', 0)) if isinstance(spec.get('n', 0), int) else 0, 4))]
        if t == 'faulty_vals':
            f = FaultyIterable(spec.get('items', []), spec.get('fail_at'))
            used.append(f)
            return f
        if t == 'iter':
            items = [v for v in spec.get('items', []) if isinstance(v, int)]
            form = spec.get('form')
            if form == 'tuple':
                return tuple(items)
            if form == 'range':
                r = [v if isinstance(v, int) else 0 for v in spec.get('range', [0, 1, 1])][:3] + [1, 1, 1]
                return range(r[0], r[1], r[2] or 1)
            if form == 'faulty':
                f = FaultyIterable(items, spec.get('fail_at'))
                used.append(f)
                return f
            if form == 'gen':
                return (v for v in items)
            if form == 'empty':
                return []
            if form == 'int':
                return items[0] if items else 0
            return list(items)
        if t == 'bits':
            bits = ''.join(c for c in str(spec.get('bin', '')) if c in '01')
            form = spec.get('form')
            if form in CLASSES:
                return getattr(B, form)(bin=bits)
            if form == 'bytes':
                return kernel_bits_to_bytes(bits)
            if form == 'bytearray':
                ba_ = bytearray(kernel_bits_to_bytes(bits))
                used.append(ba_)
                return ba_
            if form == 'memoryview':
                return memoryview(kernel_bits_to_bytes(bits))
            if form == 'memoryview_strided':
                # every other byte of a larger buffer: a memoryview that is not contiguous
                raw = kernel_bits_to_bytes(bits)
                return memoryview(bytes(b for x in raw for b in (x, 0xEE)))[::2]
            if form == 'memoryview_reversed':
                return memoryview(kernel_bits_to_bytes(bits)[::-1])[::-1]
            if form == 'memoryview_wide':
                raw = kernel_bits_to_bytes(bits)
                raw = raw + b'\0' * ((-len(raw)) % 2)
                return memoryview(raw).cast('H') if raw else memoryview(raw)
            if form == 'bitarray_le':
                return _ba.bitarray(bits, endian='little')
            if form == 'gen_bools':
                return (c == '1' for c in bits)
            if form == 'bools':
                return [c == '1' for c in bits]
            if form == 'tuple':
                return tuple(int(c) for c in bits)
            if form == 'faulty_bools':
                f = FaultyIterable([c == '1' for c in bits], spec.get('fail_at'))
                used.append(f)
                return f
            if form == 'bitarray':
                return _ba.bitarray(bits)
            if form == 'bytesio':
                bio_ = io.BytesIO(kernel_bits_to_bytes(bits))
                used.append(bio_)
                return bio_
            if form == 'array':
                return array.array('B', kernel_bits_to_bytes(bits))
            return ('0b' + bits) if bits else ''
        if t == 'textio':
            f = FailingText(spec.get('fail_at'))
            used.append(f)
            return f
        if t == 'path':
            if self.fs is None:
                self.fs = SimFS()
            bits = ''.join(c for c in str(spec.get('data', '')) if c in '01')
            p = self.fs.new_file(kernel_bits_to_bytes(bits))
            used.append('file')
            if not spec.get('exists'):
                import os
                os.unlink(p)
            return p
        if t == 'writer':
            plan = spec.get('plan')
            bits = ''.join(c for c in str(spec.get('data', '')) if c in '01')
            if plan == 'bytesio':
                return io.BytesIO(kernel_bits_to_bytes(bits))
            if plan == 'bytesio_short':
                return io.BytesIO(kernel_bits_to_bytes(bits)[:1])
            if plan in ('file', 'bufreader_bytesio'):
                used.append('file')
                if plan == 'bufreader_bytesio':
                    return io.BufferedReader(io.BytesIO(kernel_bits_to_bytes(bits)))
                if self.fs is None:
                    self.fs = SimFS()
                p = self.fs.new_file(kernel_bits_to_bytes(bits))
                return self.fs.open(p, 'rb')
            w = SimWriter(plan if isinstance(plan, dict) and 'at' in plan and 'kind' in plan else None)
            used.append(w)
            used.append('file')
            return w
        return None

    # ---- monitor ---------------------------------------------------------------------------------------------
    def _valid(self):
        """Validity predicates of every live object: list of (index, name, ok)."""
        out = []
        for i, x in enumerate(self.objs):
            if kernel.is_bits(x):
                st, b = call(lambda: x.bin)
                out.append((i, 'len==len(bin)', st == 'ok' and len(b) == len(x)))
                if kernel.is_stream(x):
                    out.append((i, '0<=pos<=len', isinstance(kernel.get_pos(x), int) and 0 <= kernel.get_pos(x) <= len(x)))
                    self.probe('stream_pos_checked')
                if type(x).__name__ in IMMUTABLE:
                    out.append((i, 'immutable-unchanged', kernel.safe_bin(x) == self.snap[i]))
                    self.probe('immutable_checked')
            elif kernel.is_array(x):
                st, b = call(lambda: (len(x.data.bin) == len(x.data), len(x.tolist()) == len(x)))
                out.append((i, 'array-well-formed', st == 'ok' and all(b)))
        out.append((-1, 'options-as-left', self.R.options_tuple() == self.opts))
        return out

    def _monitor(self, before, label, st, exc, used, ev):
        incs = []
        mode = 'lsb0' if self.opts[0] else 'msb0'
        if st == 'exc' and isinstance(exc, MemoryError):
            # resource exhaustion is an environment condition any call may meet (DESIGN 9: not explored): no verdict
            self.probe('memory_error_no_verdict')
            st = 'ok'
        if st == 'exc':
            injected = isinstance(exc, (InjectedProducerFault, InjectedIOError, InjectedClosed))
            file_involved = 'file' in used or any(isinstance(u, (SimWriter, FailingText)) for u in used)
            ok = injected or kernel.exc_documented(exc)
            if ok and kernel.exc_is(exc, 'OSError') and not injected and not file_involved:
                ok = False
            if ok and kernel.exc_is(exc, 'EOFError') and not ('fromfile' in label or label.startswith('ctor|Array')):
                ok = False
            if ok:
                self.probe('call_raised_documented')
            else:
                incs.append(self.inc(f'{label}|{mode}|raised:{kernel.exc_name(exc)}', event=ev, message=str(exc)[:200]))
        else:
            self.probe('call_ok')
        for u in used:
            if isinstance(u, FaultyIterable) and u.fired:
                self.probe('faulty_producer_fired')
                self.fault('producer_fault')
            if isinstance(u, SimWriter) and u.fired:
                self.probe('writer_fault_fired')
                self.fault('writer_fault')
            if isinstance(u, FailingText) and u.fail_at is not None and u.n >= u.fail_at:
                self.probe('text_stream_fault_fired')
                self.fault('text_stream_fault')
        # the caller's own buffers are still the caller's: whatever the call did (and while its exception, if any, is still referenced
        # here) a BytesIO can be written to and a bytearray resized
        for u in used:
            if isinstance(u, io.BytesIO):
                st_u, e_u = call(lambda: (u.write(b''), u.seek(0, 2), u.write(b'x'), u.truncate(0)))
                if st_u != 'ok' and isinstance(e_u, BufferError):
                    incs.append(self.inc(f'{label}|{mode}|invalid-post-state:caller-buffer-left-locked', event=ev, kind='BytesIO', message=str(e_u)[:120]))
            elif isinstance(u, bytearray):
                st_u, e_u = call(lambda: (u.append(0), u.pop()))
                if st_u != 'ok' and isinstance(e_u, BufferError):
                    incs.append(self.inc(f'{label}|{mode}|invalid-post-state:caller-buffer-left-locked', event=ev, kind='bytearray', message=str(e_u)[:120]))
        after = self._valid()
        bmap = {(i, n): ok for i, n, ok in before}
        for i, n, ok in after:
            if not ok and bmap.get((i, n), True):
                cls = type(self.objs[i]).__name__ if i >= 0 else 'options'
                incs.append(self.inc(f'{label}|{mode}|invalid-post-state:{n}', event=ev, cls=cls, obj=i))
                # resynchronise the subject so that one defect is reported once
                if n == '0<=pos<=len':
                    kernel.set_pos(self.objs[i], 0)
                elif n == 'immutable-unchanged':
                    self.snap[i] = kernel.safe_bin(self.objs[i])
                elif n == 'options-as-left':
                    self.opts = self.R.options_tuple()
                elif i >= 0:
                    self.objs[i] = self.B.BitArray('0x0f') if kernel.is_bits(self.objs[i]) else self.B.Array('uint8', [1])
                    self.snap[i] = None
        return incs

    def _keep(self, r):
        """Results that are generators become live tasks; new bitstrings may replace a pool slot."""
        if hasattr(r, '__next__') and not isinstance(r, (io.IOBase,)):
            if len(self.gens) < 6:
                self.gens.append(r)
                self.toggled_since.append(False)
                return None
            # no room for another live task: the generator is consumed on the spot - its steps are calls of the library like any other
            st, e = call(lambda: [None for _ in zip(range(20), r)])
            return e if st == 'exc' else None
        return None

    # ---- events --------------------------------------------------------------------------------------------------
    def apply(self, ev):
        k = ev.get('k')
        B = self.B
        if k == 'option':
            name, val = ev.get('name'), ev.get('value')
            if name not in ('lsb0', 'bytealigned', 'mxfp_overflow', 'no_color'):
                return {'skip': 1}, []
            before = self._valid()
            st, r = call(setattr, B.options, name, val)
            # the caller left the options like this (a rejected assignment leaves them as they were)
            exp = list(self.opts)
            if st == 'ok':
                idx = ('lsb0', 'bytealigned', 'mxfp_overflow', 'no_color').index(name)
                exp[idx] = val if name == 'mxfp_overflow' else bool(val)
            incs = []
            if tuple(exp) != self.R.options_tuple():
                incs.append(self.inc(f'option:{name}|options-not-as-assigned', want=exp, got=list(self.R.options_tuple())))
            self.opts = self.R.options_tuple()
            self.toggled_since = [True for _ in self.toggled_since]
            self.fault('option_change')
            incs += self._monitor(before, f'option:{name}', st, r, [], ev)
            return {'opts': list(self.opts), 'st': st}, incs
        if k == 'cache_clear':
            self.R.clear_caches()
            self.fault('cache_clear')
            return {}, []
        if k == 'step':
            if not self.gens:
                return {'skip': 'no generator'}, []
            j = int(ev.get('gen', 0)) % len(self.gens)
            before = self._valid()
            incs = []
            out = []
            for _ in range(max(1, min(int(ev.get('times', 1)) if isinstance(ev.get('times', 1), int) else 1, 5))):
                st, v = call(next, self.gens[j])
                self.probe('generator_stepped')
                if self.toggled_since[j]:
                    self.probe('generator_stepped_after_toggle')
                if st == 'exc' and isinstance(v, StopIteration):
                    out.append('STOP')
                    break
                lab = 'step' + ('|after-option-change' if self.toggled_since[j] else '')
                incs += self._monitor(before, lab, st, v, [], ev)
                out.append(st)
                if st == 'exc':
                    break
            if out and out[-1] in ('STOP', 'exc'):
                self.gens.pop(j)
                self.toggled_since.pop(j)
            self.fault('generator_step')
            return {'steps': out}, incs
        if k in ('call', 'getprop', 'setprop'):
            i = int(ev.get('obj', 0)) % len(self.objs)
            x = self.objs[i]
            cname = type(x).__name__
            used = []
            before = self._valid()
            if self.opts[0]:
                self.probe('lsb0_call')
            if cname == 'Array':
                self.probe('array_call')
            if k == 'call':
                member = str(ev.get('member', '__len__'))
                if member not in self.members.get(cname, ()):
                    return {'skip': 'no such member'}, []

                def go():
                    args = [self._dec(s, x, used) for s in ev.get('args', [])][:6]
                    kwargs = {str(a): self._dec(s, x, used) for a, s in sorted(ev.get('kwargs', {}).items())}
                    if member == 'pp' and 'stream' not in kwargs and len(args) < (4 if cname == 'Array' else 5):
                        kwargs['stream'] = io.StringIO()
                    fn = getattr(x, member)
                    r = fn(*args, **kwargs)
                    if member in ('__iadd__', '__imul__', '__ilshift__', '__irshift__', '__iand__', '__ior__', '__ixor__', '__isub__', '__itruediv__', '__ifloordiv__', '__imod__') and (kernel.is_bits(r) or kernel.is_array(r)):
                        self.objs[i] = r
                    return r
                st, r = call(go)
                label = f'call|{cname}.{member}'
            elif k == 'getprop':
                name = str(ev.get('name', 'len'))
                if name.startswith('_'):
                    return {'skip': 1}, []
                st, r = call(getattr, x, name)
                label = f'get|{cname}.{_propfam(name)}'
                if st == 'exc' and isinstance(r, AttributeError):
                    # asking for an attribute that does not exist is ordinary Python, not misuse of a documented member
                    st, r = 'ok', None
            else:
                name = str(ev.get('name', 'uint'))
                if name.startswith('_'):
                    return {'skip': 1}, []
                self.probe('setprop')
                st, r = call(lambda: setattr(x, name, self._dec(ev.get('value'), x, used)))
                label = f'set|{cname}.{_propfam(name)}'
                if st == 'exc' and isinstance(r, AttributeError):
                    # read-only / unknown attribute: AttributeError is what Python documents for it
                    st, r = 'ok', None
            if st == 'ok':
                e_ = self._keep(r)
                if e_ is not None:
                    st, r, label = 'exc', e_, label + '|drained'
            incs = self._monitor(before, label, st, r, used, ev)
            if st == 'ok' and kernel.is_bits(r) and not any(r is o for o in self.objs):
                # an object the call handed back is an involved object too: it can be looked at like any other
                st2, v2 = call(lambda: (len(r.bin) == len(r), repr(r), (0 <= r.pos <= len(r)) if kernel.is_stream(r) else True))
                if st2 != 'ok' or not (v2[0] and v2[2]):
                    incs.append(self.inc(f'{label}|{"lsb0" if self.opts[0] else "msb0"}|returned-invalid-object', event=ev,
                                         problem=kernel.canon(v2) if st2 != 'ok' else 'len/pos'))
                self.probe('returned_object_checked')
            self._trim()
            self.state(cname, 'lsb0' if self.opts[0] else 'msb0', self.opts[1], min(len(kernel.safe_bin(x)) // 16, 5) if kernel.is_bits(x) else -1, len(self.gens) > 0)
            self.transition(label, st, kernel.exc_name(r) if st == 'exc' else None)
            return {'st': st, 'exc': kernel.exc_name(r) if st == 'exc' else None}, incs
        if k == 'ctor':
            used = []
            before = self._valid()
            cls = ev.get('cls') if ev.get('cls') in CLASSES + ('Array',) else 'Bits'
            pos_before = [(kernel.get_pos(o) if kernel.is_stream(o) else None) for o in self.objs]

            def go():
                if cls == 'Array':
                    d = self._dec(ev.get('dtype'), None, used)
                    self._ctor_dtype = d if kernel.is_dtype(d) else (call(B.Dtype, d)[1] if call(B.Dtype, d)[0] == 'ok' else None)
                    init = self._dec(ev.get('init'), self.objs[0], used)
                    tr = self._dec(ev.get('trailing'), self.objs[0], used)
                    if isinstance(init, int) and not isinstance(init, bool) and init > 10 ** 5:
                        init = 10 ** 5
                    return B.Array(d, init, tr) if tr is not None else B.Array(d, init)
                C = getattr(B, cls)
                kw = {}
                for nm in ('length', 'offset', 'pos'):
                    if nm in ev and ev.get(nm) is not None and isinstance(ev.get(nm), int):
                        kw[nm] = ev[nm]
                how = ev.get('how')
                if how == 'auto':
                    a = self._dec(ev.get('auto'), self.objs[0], used)
                    if isinstance(a, int) and not isinstance(a, bool) and 10 ** 6 < a < 2 ** 62:
                        a = 10 ** 6          # (a length nobody could allocate must be refused cleanly; a merely large one is not executed)
                    return C(a, **kw)
                if how in ('kw', 'file'):
                    kw[str(ev.get('kw', 'uint'))] = self._dec(ev.get('kwv'), self.objs[0], used)
                    return C(**kw)
                if kw.get('length', 0) and 10 ** 6 < kw['length'] < 2 ** 62:
                    kw['length'] = 10 ** 6
                return C(**kw)
            st, r = call(go)
            label = f'ctor|{cls}|{ev.get("how") if cls != "Array" else "-"}' + (f':{_propfam(str(ev.get("kw")))}' if ev.get('how') in ('kw', 'file') else '')
            incs = self._monitor(before, label, st, r, used, ev)
            # a constructor reads its operands: the stream it was given (or any other live stream) stands where it stood
            pos_after = [(kernel.get_pos(o) if kernel.is_stream(o) else None) for o in self.objs]
            if pos_after != pos_before and len(pos_after) == len(pos_before):
                incs.append(self.inc(f'{label}|{"lsb0" if self.opts[0] else "msb0"}|invalid-post-state:operand-stream-moved', event=ev, before=pos_before, after=pos_after))
            if st == 'ok' and (kernel.is_bits(r) or kernel.is_array(r)):
                st2, b = call(lambda: (r.bin if kernel.is_bits(r) else r.data.bin))
                ln = len(r) if kernel.is_bits(r) else len(r.data)
                if st2 != 'ok' or len(b) != ln or (kernel.is_stream(r) and not 0 <= kernel.get_pos(r) <= ln):
                    incs.append(self.inc(f'{label}|{"lsb0" if self.opts[0] else "msb0"}|created-invalid-object', event=ev))
                elif ln <= 4096:
                    slot = int(ev.get('slot', 0)) % 4
                    if slot < len(self.objs):
                        self.objs[slot] = r
                        self.snap[slot] = self._snapshot(r)
                    elif len(self.objs) < 4:
                        self.objs.append(r)
                        self.snap.append(self._snapshot(r))
            self.transition(label, st, kernel.exc_name(r) if st == 'exc' else None)
            return {'st': st, 'exc': kernel.exc_name(r) if st == 'exc' else None}, incs
        if k == 'dup':
            i = int(ev.get('obj', 0)) % len(self.objs)
            x = self.objs[i]
            how = ev.get('how')
            if how == 'pickle' and not kernel.is_bits(x):
                # an Array holds a Dtype, whose reader functions are closures: pickle refuses it with its own AttributeError
                # ("Can't pickle local object") - pickling an Array is not a documented capability, so nothing is asked of it
                how = 'deepcopy'
            before = self._valid()
            fn = {'copy': copy.copy, 'pickle': lambda o: pickle.loads(pickle.dumps(o)), 'deepcopy_in_list': lambda o: copy.deepcopy([o, o])[1]}.get(how, copy.deepcopy)
            st, r = call(fn, x)
            label = f'dup|{type(x).__name__}.{how if how in ("copy", "pickle", "deepcopy_in_list") else "deepcopy"}'
            self.probe('dup_call')
            incs = self._monitor(before, label, st, r, [], ev)
            if st == 'ok' and (kernel.is_bits(r) or kernel.is_array(r)) and r is not x:
                slot = int(ev.get('slot', 0)) % 4
                if slot == i:
                    slot = (slot + 1) % 4
                if slot < len(self.objs):
                    self.objs[slot] = r
                    self.snap[slot] = self._snapshot(r)
                elif len(self.objs) < 4:
                    self.objs.append(r)
                    self.snap.append(self._snapshot(r))
            self.transition(label, st, kernel.exc_name(r) if st == 'exc' else None)
            return {'st': st, 'exc': kernel.exc_name(r) if st == 'exc' else None}, incs
        if k == 'pack':
            used = []
            before = self._valid()
            self.probe('pack_call')

            def go():
                fmt = ev.get('fmt', '')
                fmt = [str(f) for f in fmt] if isinstance(fmt, list) else str(fmt)
                vals = [self._dec(s, self.objs[0], used) for s in ev.get('vals', [])][:6]
                kw = {str(a): b for a, b in sorted(ev.get('kw', {}).items()) if isinstance(b, (int, str))}
                return B.pack(fmt, *vals, **kw)
            st, r = call(go)
            incs = self._monitor(before, 'pack', st, r, used, ev)
            if st == 'ok':
                if not kernel.is_bits(r) or len(r.bin) != len(r) or r.pos != 0:
                    incs.append(self.inc('pack|created-invalid-object', event=ev))
                elif len(r) <= 4096:
                    # the packed stream joins the world: mutating it later must not change anything it was packed from
                    slot = int(ev.get('slot', 0)) % 4 if isinstance(ev.get('slot', 0), int) else 0
                    if slot < len(self.objs) and not any(o is self.objs[slot] for o in []):
                        self.objs[slot] = r
                        self.snap[slot] = self._snapshot(r)
                    elif len(self.objs) < 4:
                        self.objs.append(r)
                        self.snap.append(self._snapshot(r))
            return {'st': st, 'exc': kernel.exc_name(r) if st == 'exc' else None}, incs
        if k == 'dtype':
            used = []
            before = self._valid()
            self.probe('dtype_call')

            def go():
                tok = self._dec(ev.get('token'), None, used)
                ln, sc = ev.get('length'), ev.get('scale')
                if sc in ('inf', 'nan'):
                    sc = float(sc)
                d = B.Dtype(tok, ln if isinstance(ln, int) else None, sc if isinstance(sc, (int, float, str)) or sc is None else None)
                then = ev.get('then')
                if then == 'build':
                    return d.build(self._dec(ev.get('value'), self.objs[0], used))
                if then == 'parse':
                    return d.parse(self._dec(ev.get('pvalue', ev.get('value')), self.objs[0], used))
                if then == 'str':
                    return [str(d), repr(d), hash(d), d == d, d == 3]
                return [d.name, d.length, d.bitlength, d.scale, d.bits_per_item, d.variable_length, d.return_type, d.is_signed]
            st, r = call(go)
            incs = self._monitor(before, f'dtype|{ev.get("then")}', st, r, used, ev)
            return {'st': st, 'exc': kernel.exc_name(r) if st == 'exc' else None}, incs
        return {'skip': k}, []

    def _trim(self):
        """Keep the world small: an object that grew beyond 8192 bits is cut back (not a library action)."""
        for i, x in enumerate(self.objs):
            if kernel.is_bits(x) and len(x) > 8192 and type(x).__name__ in ('BitArray', 'BitStream'):
                y = type(x)(bin=kernel.safe_bin(x)[:64])
                self.objs[i] = y
            elif kernel.is_array(x) and len(x.data) > 8192:
                x.data = self.B.BitArray(bin=kernel.safe_bin(x.data)[:64])
            elif kernel.is_bits(x) and len(x) > 8192:
                y = type(x)(bin=kernel.safe_bin(x)[:64])
                self.objs[i] = y
                self.snap[i] = self._snapshot(y)

    def simplify(self, ev):
        return kernel.simplify_generic(ev)


_SIG = {}
_MEMBERS = {}


def _params(cname, member, fn):
    key = (cname, member)
    if key not in _SIG:
        try:
            _SIG[key] = list(inspect.signature(fn).parameters.values())[1:]
        except (TypeError, ValueError):
            _SIG[key] = []
    return _SIG[key]


def kernel_bits_to_bytes(bits):
    from ..envs import bits_to_bytes
    return bits_to_bytes(bits)


def _propfam(name):
    base = ''.join(c for c in name if not c.isdigit())
    return base + ('N' if base != name else '')
