"""E-IO / C17 - byte and file serialisation under a fault-injecting writer and a simulated file system.

Write side: every write index of tofile is a crash point (error / torn / closed), chunk size is a knob driven
through the guarded hook.  Read side: every valid (offset, length) window over every byte source.  DESIGN 4/C17.
"""
from __future__ import annotations

import array
import io
import os

from .. import kernel, loader
from ..envs import (SimWriter, SimFS, InjectedIOError, InjectedClosed, bits_to_bytes, bytes_to_bits)
from ..kernel import Engine, call, exc_is

CLASSES = ('Bits', 'BitArray', 'ConstBitStream', 'BitStream')
WRITE_SRC = ('mem', 'file', 'filelen', 'fileoff', 'slice', 'bytesio')
FILE_ROUTES = ('filename', 'handle', 'handle_update', 'handle_raw', 'handle_bytesname')
READ_ROUTES = ('bytes', 'bytearray', 'memoryview', 'bytesio', 'filename', 'handle', 'bitarray', 'mv_cast_H', 'mv_cast_I', 'array_H', 'bytesio_pos', 'bytesio_reused', 'bufreader',
               'handle_update', 'handle_raw', 'bufrandom', 'handle_bytesname')
FAULT_KINDS = ('error', 'torn', 'closed')


class EIO(Engine):
    prop = 'C17'
    name = 'E-IO'
    level = 'fault_enumeration'
    fault_kinds = ('tofile_fault', 'read', 'fromfile', 'roundtrip')
    mutating_kinds = ('tofile', 'tofile_fault', 'read', 'fromfile', 'roundtrip')
    rule = ('write side: one run per (chunk size, content length, class, source kind); within a run the no-fault '
            'tofile is followed by one faulted tofile per (write index k, fault kind) and a retry - bounded-exhaustive '
            'over lengths 0..3*chunk+9 for chunk in {8,16,24,64} bits, sampled around chunk multiples for larger chunks; '
            'read side: one run per (source size, route, class) enumerating every valid (offset,length) window. '
            'A run is non-trivial if it performed at least one write or read AND at least one injected fault or '
            'environment read (faulted tofile, windowed read, fromfile, round trip through a real file); distinct = '
            'distinct event-list digest.')
    stub_components = ['SimWriter (the BinaryIO given to tofile; fault plan per write index)',
                       'SimFS (scratch directory of real files under /dev/shm, real mmap)']
    assumptions = ['writers follow the buffered BinaryIO contract (write consumes the whole buffer or raises); '
                   'short writes are recorded but carry no verdict',
                   'the tofile chunk size is set through the guarded hook bitstring.bits._VERIF_TOFILE_CHUNK_BITS; '
                   'the thorough tier additionally crosses the real 100 MiB constant once with the hook unset',
                   'a mapped file is never truncated by another process (SIGBUS is outside every property)']
    expected_probes = ('write:chunk_boundary_crossed_partial_final_byte', 'write:fault_on_first_write',
                       'write:fault_on_last_write', 'write:torn', 'write:lazy_file_source',
                       'read:window_ends_mid_byte', 'read:window_at_end', 'fromfile:short', 'fromfile:negative_count', 'roundtrip:ok', 'write:lsb0_mode', 'read:lsb0_mode', 'write:mutated_then_serialised_again')
    exhaustive = True

    # -------------------------------------------------------------------------------------------------
    def plan(self, tier, base_seed):
        descs = []
        case = 0

        def add(**kw):
            nonlocal case
            case += 1
            d = {'seed': base_seed * 1_000_003 + case, 'case': case}
            d.update(kw)
            descs.append(d)

        small = (8, 16, 24, 64)
        for chunk in small:
            for n in range(0, 3 * chunk + 10):
                for ci, cls in enumerate(CLASSES + ('Array',)):
                    add(mode='write', chunk=chunk, len=n, cls=cls, src='mem')
                    # one further source kind per (len, class), rotating so all are covered
                    src = WRITE_SRC[1:][(n + ci) % (len(WRITE_SRC) - 1)]
                    if cls != 'Array':
                        add(mode='write', chunk=chunk, len=n, cls=cls, src=src)
        big = (4096,) if tier == 'quick' else (4096, 65536)
        for chunk in big:
            lens = sorted({0, 1, 7, 8, chunk - 9, chunk - 8, chunk - 1, chunk, chunk + 1, chunk + 8, chunk + 9,
                           2 * chunk - 1, 2 * chunk, 2 * chunk + 5, 3 * chunk + 3})
            for n in lens:
                for ci, cls in enumerate(CLASSES + ('Array',)):
                    srcs = ('mem',) if cls == 'Array' else (('mem', WRITE_SRC[1:][(n + ci) % 5]) if tier == 'quick' else WRITE_SRC)
                    for src in srcs:
                        add(mode='write', chunk=chunk, len=n, cls=cls, src=src)
        if tier == 'thorough':
            # every chunk size that is a multiple of 8 up to 128 bits (and a few larger ones), every length up to
            # 3 chunks + 9 bits, every class, every source kind; content and the lsb0 knob differ through the case number
            for chunk in tuple(range(8, 136, 8)) + (256, 1024):
                top = 3 * chunk + 10 if chunk <= 128 else 0
                lens = range(0, top) if top else sorted({0, 1, chunk - 1, chunk, chunk + 1, 2 * chunk - 3, 2 * chunk, 2 * chunk + 5, 3 * chunk, 3 * chunk + 9})
                for n in lens:
                    for cls in CLASSES + ('Array',):
                        for src in (WRITE_SRC if cls != 'Array' else ('mem',)):
                            add(mode='write', chunk=chunk, len=n, cls=cls, src=src)
            add(mode='write_real', chunk=None, len=8 * 100 * 1024 * 1024 + 5, cls='Bits', src='mem')
        sizes = (0, 1, 2, 3) if tier == 'quick' else (0, 1, 2, 3, 4, 5, 6, 7)
        for size in sizes:
            for route in READ_ROUTES:
                for cls in CLASSES:
                    add(mode='read', size=size, route=route, cls=cls)
        # (8193 bytes: larger than one mmap allocation unit, so windows start beyond it too)
        for size in ((1025, 8192, 8193) if tier == 'quick' else (511, 1024, 1025, 4096, 4097, 8192, 8193, 12288, 12289, 65536)):
            for route in READ_ROUTES:
                add(mode='read', size=size, route=route, cls=CLASSES[size % 4], sparse=True)
        for dt in ('uint8', 'uint5', 'int12', 'floatbe32', 'uintle16', 'bytes2', 'hex4', 'bool'):
            for size in (0, 1, 3, 4, 7, 8, 9):
                add(mode='fromfile', dtype=dt, size=size)
        return descs

    def n_events(self, g, desc):
        return 100000

    def config(self, g, desc):
        cfg = {k: v for k, v in desc.items() if k not in ('seed', 'case')}
        if desc['mode'] in ('write',):
            cfg['bits'] = g.bits(desc['len'])
            cfg['slack'] = g.int(1, 3)
            cfg['off'] = g.pick([1, 3, 8, 13])
            # knob: the bit-numbering option must not matter for what is written (stored order is mode-independent)
            cfg['lsb0'] = g.chance(0.3)
        elif desc['mode'] == 'write_real':
            cfg['head'] = g.bits(64)
        elif desc['mode'] in ('read', 'fromfile'):
            cfg['data'] = bytes(g.int(0, 255) for _ in range(desc['size'])).hex()
            cfg['wseed'] = g.int(0, 2 ** 30)
            # knob: an offset / length window is counted in storage order whatever the bit-numbering option says
            cfg['lsb0'] = g.chance(0.3) if desc['mode'] == 'read' else False
        return cfg

    # -------------------------------------------------------------------------------------------------
    def start(self, cfg):
        self.R = loader.main()
        self.R.reset()
        self.B = self.R.pkg
        self.fs = SimFS()
        self.cfg = cfg
        self.queue = []
        mode = cfg['mode']
        self.B.bits._VERIF_TOFILE_CHUNK_BITS = cfg.get('chunk')
        if mode == 'write' and cfg.get('lsb0'):
            self.B.options.lsb0 = True
            self.probe('write:lsb0_mode')
        if mode == 'read' and cfg.get('lsb0'):
            self.B.options.lsb0 = True
            self.probe('read:lsb0_mode')
        if mode == 'write':
            self.obj = self._build_write_subject(cfg)
            self.bits = self._bin(self.obj)
            # state-aware generation: learn the number of writes from the no-fault run, then enumerate crash points
            self.queue.append({'k': 'tobytes'})
            self.queue.append({'k': 'tofile'})
            if cfg.get('cls') in ('BitArray', 'BitStream'):
                # the object is changed in place after it has been serialised once, and serialised again: what is written
                # is what it holds NOW (nothing remembered from the first time, nothing re-read from where it came from)
                hows = ('invert', 'append', 'setitem', 'reverse', 'byteswap', 'prepend', 'imul', 'clear_append')
                self.queue.append({'k': 'mutate', 'how': hows[(len(cfg.get('bits', '')) + cfg.get('chunk', 8)) % len(hows)]})
                self.queue.append({'k': 'tobytes'})
                self.queue.append({'k': 'tofile'})
            self.n_writes = None
        elif mode == 'write_real':
            n = cfg['len']
            head = cfg['head']
            b = self.B.BitArray(n)
            b.overwrite(self.B.Bits(bin=head), 0)
            b.overwrite(self.B.Bits(bin=head), n - len(head))
            self.obj = self.B.Bits(b)
            self.bits = None
            self.queue.append({'k': 'tofile_real'})
        elif mode == 'read':
            data = bytes.fromhex(cfg['data'])
            nb = len(data) * 8
            if cfg.get('sparse'):
                g = kernel.Gen(cfg['wseed'])
                wins = {(0, nb), (0, None), (None, nb), (None, None), (nb, 0), (nb - 1, 1), (1, nb - 1), (3, nb - 8), (8, 8)}
                for _ in range(40):
                    o = g.int(0, nb)
                    wins.add((o, g.int(0, nb - o)))
                    wins.add((o, None))
                for o in (32767, 32768, 32769, 32776, 40000, 65535, 65536):
                    if o <= nb:
                        wins.add((o, min(13, nb - o)))
                        wins.add((o, None))
                        wins.add((o, nb - o))
                wins = sorted(wins, key=lambda w: (-1 if w[0] is None else w[0], -1 if w[1] is None else w[1]))
            else:
                wins = [(None, None)]
                for o in [None] + list(range(0, nb + 1)):
                    base = o or 0
                    for ln in [None] + list(range(0, nb - base + 1)):
                        if (o, ln) != (None, None):
                            wins.append((o, ln))
            for o, ln in wins:
                self.queue.append({'k': 'read', 'offset': o, 'length': ln})
            if cfg.get('route') in FILE_ROUTES and nb:
                # the file is replaced (rename of a same-sized file, time stamp carried over) while a bitstring of the old one is alive
                self.queue.insert(len(self.queue) // 2, {'k': 'read', 'offset': None, 'length': None, 'replace': True})
            self.queue.append({'k': 'roundtrip'})
        elif mode == 'fromfile':
            data = bytes.fromhex(cfg['data'])
            d = self.B.Dtype(cfg['dtype']) if not cfg['dtype'].startswith('bytes') else self.B.Dtype(cfg['dtype'])
            w = d.bitlength
            avail = (len(data) * 8) // w
            for n in sorted(({None, 0, 1, avail - 1, avail, avail + 1, avail + 5} - {-1}) | {-1, -3}, key=lambda x: -10 if x is None else x):
                for pre in (0, 2):
                    self.queue.append({'k': 'fromfile', 'n': n, 'pre': pre, 'via': 'handle'})
                    self.queue.append({'k': 'fromfile', 'n': n, 'pre': pre, 'via': 'bytesio'})
                    self.queue.append({'k': 'fromfile', 'n': n, 'pre': pre, 'via': 'bufreader'})
        return {'mode': mode}

    def cleanup(self):
        try:
            self.B.bits._VERIF_TOFILE_CHUNK_BITS = None
            self.R.reset_options()
        except Exception:
            pass
        if getattr(self, 'fs', None):
            self.fs.close()

    def gen(self, g):
        if self.queue:
            return self.queue.pop(0)
        return None

    # -------------------------------------------------------------------------------------------------
    def _bin(self, obj):
        if kernel.is_array(obj):
            return kernel.safe_bin(obj.data)
        return kernel.safe_bin(obj)

    def _build_write_subject(self, cfg):
        B = self.B
        bits = cfg['bits']
        cls = cfg['cls']
        if cls == 'Array':
            a = B.Array('uint5')
            a.data = B.BitArray(bin=bits)
            return a
        C = getattr(B, cls)
        src = cfg['src']
        if src == 'mem':
            return C(bin=bits)
        if src == 'slice':
            big = C(bin='101' + bits + '0110')
            return big[3:3 + len(bits)]
        if src == 'bytesio':
            return C(io.BytesIO(bits_to_bytes(bits) + b'\xff'), offset=0, length=len(bits))
        slack = bytes([0xFF ^ 0x00]) * cfg['slack']
        if src == 'file':
            # whole file, lazily mapped: only possible for whole-byte content; otherwise fall back to filelen
            if len(bits) % 8 == 0 and len(bits) > 0:
                p = self.fs.new_file(bits_to_bytes(bits))
                self.probe('write:lazy_file_source')
                return C(filename=p)
            src = 'filelen'
        if src == 'filelen':
            body = bits_to_bytes(bits)
            # bytes after the logical end are the complement pattern: a read past the end changes an observable
            padn = (-len(bits)) % 8
            if padn and body:
                body = body[:-1] + bytes([body[-1] | ((1 << padn) - 1)])
            p = self.fs.new_file(body + slack)
            self.probe('write:lazy_file_source')
            return C(filename=p, length=len(bits))
        if src == 'fileoff':
            off = cfg['off']
            allbits = '1' * off + bits
            body = bits_to_bytes(allbits + '1' * ((-len(allbits)) % 8))
            p = self.fs.new_file(body + slack)
            return C(filename=p, offset=off, length=len(bits))
        raise AssertionError(src)

    # -------------------------------------------------------------------------------------------------
    def apply(self, ev):
        k = ev['k']
        fn = getattr(self, 'ev_' + k, None)
        if fn is None:
            return {'skip': k}, []
        return fn(ev)

    # ---- write side ----
    def ev_tobytes(self, ev):
        if self.cfg['mode'] != 'write':
            return {'skip': 1}, []
        incs = []
        obj, bits = self.obj, self.bits
        want = bits_to_bytes(bits)
        st, got = call(obj.tobytes)
        if st != 'ok' or got != want:
            incs.append(self.inc('tobytes|content-mismatch', bits=bits, got=kernel.canon(got), want=want.hex()))
        target = obj.data if kernel.is_array(obj) else obj
        st, got = call(bytes, target)
        if st != 'ok' or got != want:
            incs.append(self.inc('bytes()|content-mismatch', bits=bits, got=kernel.canon(got), want=want.hex()))
        st, got = call(lambda: target.bytes)
        if len(bits) % 8 == 0:
            if st != 'ok' or got != want:
                incs.append(self.inc('.bytes|content-mismatch', bits=bits, got=kernel.canon(got), want=want.hex()))
        else:
            if st != 'exc' or not exc_is(got, 'ValueError'):
                incs.append(self.inc('.bytes|non-whole-byte-not-refused', bits=bits, got=kernel.canon(got)))
        if self._bin(obj) != bits:
            incs.append(self.inc('tobytes|object-changed', bits=bits, now=self._bin(obj)))
        return {'n': len(want)}, incs

    def ev_mutate(self, ev):
        if self.cfg['mode'] != 'write' or self.cfg.get('cls') not in ('BitArray', 'BitStream'):
            return {'skip': 1}, []
        x = self.obj
        how = ev.get('how')
        raw0 = None
        if len(x) % 8 == 0 and 0 < len(x) <= 256:
            # the object takes its own bytes once more through the property setter (same content): what the caller's bytes object
            # builds later must not depend on what is done to the object afterwards
            raw0 = bits_to_bytes(self.bits)
            call(setattr, x, 'bytes', raw0)

        def go():
            if how == 'invert':
                x.invert() if len(x) else x.append('0b1')
            elif how == 'append':
                x.append('0b101')
            elif how == 'prepend':
                x.prepend('0x5')
            elif how == 'setitem':
                if len(x):
                    x[0] = not x[0]
                else:
                    x.append('0b0')
            elif how == 'reverse':
                x.reverse()
                x.append('0b1')
            elif how == 'byteswap':
                if len(x) % 8 == 0 and len(x):
                    x.byteswap()
                x.invert() if len(x) else x.append('0x00')
            elif how == 'imul':
                y = x
                y *= 2 if len(x) <= 4096 else 1
                if not len(x):
                    x.append('0b11')
            else:
                x.clear()
                x.append('0xa5c')
        st, r = call(go)
        self.fault('mutated_between_serialisations')
        self.probe('write:mutated_then_serialised_again')
        # the reference from here on is what the object holds now (read from its store, not through the library's byte paths)
        self.bits = self._bin(self.obj)
        self.n_writes_stale = True
        incs = []
        if raw0 is not None:
            for C_ in (self.B.Bits, self.B.BitArray):
                st2, y = call(lambda: C_(bytes=raw0))
                if st2 != 'ok' or kernel.safe_bin(y) != bytes_to_bits(raw0) or call(y.tobytes) != ('ok', raw0):
                    incs.append(self.inc('read|route=bytes|after-the-same-bytes-were-assigned-to-an-object-since-changed|content-mismatch', n=len(raw0), how=how))
                    break
        return {'st': st, 'len': len(self.bits)}, incs

    def ev_tofile(self, ev):
        """tofile into a SimWriter with an optional fault plan."""
        if self.cfg['mode'] != 'write':
            return {'skip': 1}, []
        incs = []
        obj, bits, chunk = self.obj, self.bits, self.cfg['chunk']
        if not isinstance(chunk, int) or chunk < 8 or chunk % 8:
            return {'skip': 'chunk size must be a positive multiple of 8 bits'}, []
        want = bits_to_bytes(bits)
        plan = ev.get('plan')
        w = SimWriter(plan)
        pos_before = (kernel.get_pos(obj) if kernel.is_stream(obj) else None)
        st, val = call(obj.tofile, w)
        cb = chunk // 8
        n_expected = (len(bits) + chunk - 1) // chunk
        fired = w.fired is not None
        if plan is None or not fired:
            if st != 'ok':
                incs.append(self.inc('tofile|raised-without-fault', exc=kernel.canon(val), len=len(bits), chunk=chunk))
            elif bytes(w.durable) != want:
                incs.append(self.inc('tofile|content-mismatch', len=len(bits), chunk=chunk, src=self.cfg['src'],
                                     got=bytes(w.durable).hex()[:200], want=want.hex()[:200]))
            elif len(w.writes) != n_expected or any(x != cb for x in w.writes[:-1]):
                incs.append(self.inc('tofile|write-pattern', len=len(bits), chunk=chunk, writes=w.writes[:20], expected_writes=n_expected))
            if plan is None and self.n_writes is None:
                self.n_writes = len(w.writes)
                # enumerate every crash point: state-aware generation
                for kk in range(1, self.n_writes + 1):
                    for kind in FAULT_KINDS:
                        p = {'at': kk, 'kind': kind}
                        if kind == 'torn':
                            sz = w.writes[kk - 1]
                            p['keep'] = sz // 2
                        self.queue.append({'k': 'tofile_fault', 'plan': p})
                        self.queue.append({'k': 'tofile'})          # retry on a fresh writer
                if len(w.writes) >= 2 and len(bits) % 8:
                    self.probe('write:chunk_boundary_crossed_partial_final_byte')
        else:
            self.fault('writer_' + plan['kind'])
            if plan['at'] == 1:
                self.probe('write:fault_on_first_write')
            if self.n_writes is not None and plan['at'] == self.n_writes:
                self.probe('write:fault_on_last_write')
            if plan['kind'] == 'torn':
                self.probe('write:torn')
            if st != 'exc' or not isinstance(val, (InjectedIOError, InjectedClosed)):
                incs.append(self.inc('tofile|fault-swallowed-or-replaced', plan=plan, outcome=st, exc=kernel.canon(val)))
            if w.writes_after_fault:
                incs.append(self.inc('tofile|write-after-fault', plan=plan, n=w.writes_after_fault))
            d = bytes(w.durable)
            exp_len = (plan['at'] - 1) * cb + (min(plan.get('keep', 0), max(w.writes[-1] - 1, 0)) if plan['kind'] == 'torn' else 0)
            if want[:len(d)] != d or len(d) != exp_len:
                incs.append(self.inc('tofile|durable-not-the-expected-prefix', plan=plan, durable=d.hex()[:200], want=want.hex()[:200], exp_len=exp_len))
        if self._bin(obj) != bits or (kernel.get_pos(obj) if kernel.is_stream(obj) else None) != pos_before:
            incs.append(self.inc('tofile|object-changed', plan=plan))
            self.obj = self._build_write_subject(self.cfg)
            self.bits = self._bin(self.obj)
        return {'st': st, 'writes': len(w.writes), 'durable': len(w.durable)}, incs

    ev_tofile_fault = ev_tofile

    def ev_tofile_real(self, ev):
        """One crossing of the real 100 MiB constant (hook unset) into a hashing writer."""
        import hashlib
        if self.cfg['mode'] != 'write_real':
            return {'skip': 1}, []
        incs = []

        class HW:
            def __init__(s):
                s.h = hashlib.sha256()
                s.sizes = []

            def write(s, b):
                s.h.update(b)
                s.sizes.append(len(b))
                return len(b)

        hw = HW()
        st, val = call(self.obj.tofile, hw)
        n = self.cfg['len']
        head = self.cfg['head']
        bits_head = bits_to_bytes(head)
        ref = hashlib.sha256()
        nbytes = (n + 7) // 8
        # reference content: head, zeros, head at the very end (bit offset n-64), zero padded
        tail_bits = '0' * ((n - len(head)) % 8) + head
        tail_bits = tail_bits + '0' * ((-len(tail_bits)) % 8)
        tail = bits_to_bytes(tail_bits)
        ref.update(bits_head)
        ref.update(b'\0' * (nbytes - len(bits_head) - len(tail)))
        ref.update(tail)
        if st != 'ok' or hw.h.digest() != ref.digest() or sum(hw.sizes) != nbytes:
            incs.append(self.inc('tofile|real-chunk|content-mismatch', st=st, exc=kernel.canon(val) if st == 'exc' else None, sizes=hw.sizes))
        if len(hw.sizes) >= 2:
            self.probe('write:real_100MiB_chunk_boundary_crossed')
        return {'sizes': hw.sizes}, incs

    # ---- read side ----
    def _source_bits(self):
        return bytes_to_bits(bytes.fromhex(self.cfg['data']))

    def ev_read(self, ev):
        if self.cfg['mode'] != 'read':
            return {'skip': 1}, []
        B = self.B
        data = bytes.fromhex(self.cfg['data'])
        allbits = bytes_to_bits(data)
        nb = len(allbits)
        o, ln = ev.get('offset'), ev.get('length')
        base = 0 if o is None else o
        if not isinstance(base, int) or base < 0 or base > nb or (ln is not None and (not isinstance(ln, int) or ln < 0 or base + ln > nb)):
            return {'skip': 'window outside the source (C15 territory)'}, []
        want = allbits[base:nb if ln is None else base + ln]
        route, cls = self.cfg['route'], self.cfg['cls']
        C = getattr(B, cls)
        kw = {}
        if o is not None:
            kw['offset'] = o
        if ln is not None:
            kw['length'] = ln
        if (base + len(want)) % 8:
            self.probe('read:window_ends_mid_byte')
        if base + len(want) == nb and nb:
            self.probe('read:window_at_end')
        h = None
        src_buf = None
        src_bio = None
        try:
            if route == 'bytes':
                st, x = call(C, bytes=data, **kw)
            elif route == 'bytearray':
                src_buf = bytearray(data)
                st, x = call(C, bytes=src_buf, **kw) if kw else call(C, src_buf)
            elif route == 'memoryview':
                src_buf = bytearray(data) if (base + len(want)) % 2 else None      # (a view of a writable or of a read-only buffer)
                mv = memoryview(src_buf if src_buf is not None else data)
                st, x = call(C, bytes=mv, **kw) if kw else call(C, mv)
            elif route == 'bytesio':
                src_bio = io.BytesIO(data)
                st, x = call(C, src_bio, **kw)
            elif route in ('mv_cast_H', 'mv_cast_I', 'array_H'):
                # a buffer whose items are wider than a byte: offset and length still count bits of its bytes
                isz = 4 if route.endswith('I') else 2
                if len(data) % isz or not data:
                    return {'skip': 'size is not a multiple of the item size'}, []
                buf = memoryview(data).cast(route[-1]) if route.startswith('mv') else array.array('H', data)
                st, x = call(C, bytes=buf, **kw) if (kw or route == 'array_H') else call(C, buf)
            elif route == 'bufreader':
                # a buffered reader that is not a named file (a pipe, a wrapped in-memory stream): read, not mapped
                st, x = call(C, io.BufferedReader(io.BytesIO(data)), **kw)
            elif route == 'bytesio_pos':
                # the stream position of a BytesIO is not part of its content (the whole buffer is the source)
                bio = io.BytesIO(data)
                bio.read((base + 3) % (len(data) + 1))
                st, x = call(C, bio, **kw)
            elif route == 'bytesio_reused':
                bio = io.BytesIO()
                bio.write(data)                       # left positioned at its end, as after tofile()
                st, x = call(C, bio, **kw)
                if st == 'ok':
                    st, x = call(C, bio, **kw)        # and used a second time
            elif route == 'bitarray':
                import bitarray
                ba = bitarray.bitarray(allbits)
                st, x = call(C, bitarray=ba, **kw) if kw else call(C, ba)
            elif route == 'filename':
                if not hasattr(self, 'path'):
                    self.path = self.fs.new_file(data)
                st, x = call(C, filename=self.path, **kw)
            elif route == 'handle':
                if not hasattr(self, 'path'):
                    self.path = self.fs.new_file(data)
                h = open(self.path, 'rb')
                st, x = call(C, h, **kw)
            elif route == 'handle_bytesname':
                # a file opened by a bytes path (os.listdir(b'.') gives such names)
                if not hasattr(self, 'path'):
                    self.path = self.fs.new_file(data)
                h = open(os.fsencode(self.path), 'rb')
                st, x = call(C, h, **kw)
            elif route in ('handle_update', 'handle_raw'):
                # "a file object, opened in binary mode": for update (io.BufferedRandom) or unbuffered (io.FileIO)
                if not hasattr(self, 'path'):
                    self.path = self.fs.new_file(data)
                h = open(self.path, 'r+b') if route == 'handle_update' else open(self.path, 'rb', buffering=0)
                st, x = call(C, h, **kw)
            elif route == 'bufrandom':
                st, x = call(C, io.BufferedRandom(io.BytesIO(data)), **kw)
            else:
                return {'skip': route}, []
        finally:
            if h is not None:
                h.close()
        incs = []
        tag = f'read|route={route}'
        if st != 'ok':
            trig = 'empty-file' if (nb == 0 and route in ('filename', 'handle', 'handle_update', 'handle_raw', 'handle_bytesname')) else 'valid-window'
            incs.append(self.inc(f'{tag}|{trig}|raised', cls=cls, size=len(data), offset=o, length=ln, exc=kernel.canon(x)))
            return {'st': 'exc'}, incs
        if src_buf is not None and len(src_buf):
            # the caller re-uses its buffer (the next block of a file read into it): what was read from it stays what it was
            for j in range(len(src_buf)):
                src_buf[j] ^= 0xFF
            self.fault('source_buffer_rewritten')
            after = call(lambda: (x.bin, x.tobytes()))
            if after != ('ok', (want, bits_to_bytes(want))):
                incs.append(self.inc(f'{tag}|source-rewritten-afterwards|content-changed', cls=cls, size=len(data), offset=o, length=ln))
                return {'st': 'ok', 'n': len(want)}, incs
        if src_bio is not None and len(data):
            # the caller goes on using its BytesIO (the next record written over the old one): it is not left locked by the
            # bitstring made from it, and what was read from it stays what it was
            st2, e2 = call(lambda: (src_bio.seek(0), src_bio.write(bytes(b ^ 0xFF for b in data)), src_bio.write(b'more'), src_bio.truncate(1)))
            self.fault('source_buffer_rewritten')
            if st2 != 'ok':
                incs.append(self.inc(f'{tag}|source-reused-afterwards|raised:{kernel.exc_name(e2)}', cls=cls, size=len(data), offset=o, length=ln))
                return {'st': 'ok', 'n': len(want)}, incs
            after = call(lambda: (x.bin, x.tobytes()))
            if after != ('ok', (want, bits_to_bytes(want))):
                incs.append(self.inc(f'{tag}|source-rewritten-afterwards|content-changed', cls=cls, size=len(data), offset=o, length=ln))
                return {'st': 'ok', 'n': len(want)}, incs
        if ev.get('replace') and route in FILE_ROUTES and len(data):
            old_obj = x
            data2 = bytes(b ^ 0xFF for b in data)
            st_ = os.stat(self.path)
            tmp = self.path + '.new'
            with open(tmp, 'wb') as f:
                f.write(data2)
            os.utime(tmp, ns=(st_.st_atime_ns, st_.st_mtime_ns))
            os.replace(tmp, self.path)
            os.utime(self.path, ns=(st_.st_atime_ns, st_.st_mtime_ns))
            self.fault('file_replaced_under_live_object')
            h2 = None
            try:
                if route == 'filename':
                    st2, y = call(C, filename=self.path)
                else:
                    h2 = (open(os.fsencode(self.path), 'rb') if route == 'handle_bytesname' else open(self.path, 'r+b') if route == 'handle_update'
                          else open(self.path, 'rb', buffering=0) if route == 'handle_raw' else open(self.path, 'rb'))
                    st2, y = call(C, h2)
            finally:
                if h2 is not None:
                    h2.close()
            path_, = (self.path,)
            del self.path                           # later events get a fresh file with the original content
            got2 = call(lambda: y.tobytes()) if st2 == 'ok' else (st2, y)
            if got2 != ('ok', data2):
                incs.append(self.inc(f'{tag}|file-replaced|stale-or-wrong-content', cls=cls, size=len(data),
                                     got=got2[1][:40].hex() if isinstance(got2[1], bytes) else kernel.canon(got2[1])))
            if call(lambda: old_obj.tobytes()) != ('ok', data):
                incs.append(self.inc(f'{tag}|file-replaced|live-object-of-the-old-file-changed', cls=cls, size=len(data)))
            return {'st': 'ok', 'n': len(want), 'replaced': True}, incs
        got = call(lambda: x.bin)
        if got != ('ok', want) or len(x) != len(want):
            mut = 'mutable' if cls in ('BitArray', 'BitStream') else 'const'
            trig = 'lazy-length' if (route in ('filename', 'handle', 'handle_update', 'handle_raw', 'handle_bytesname') and not o and ln is not None) else 'window'
            incs.append(self.inc(f'{tag}|{trig}|{mut}|content-mismatch', cls=cls, size=len(data), offset=o, length=ln,
                                 got=kernel.canon(got[1])[:200] if isinstance(got[1], str) else kernel.canon(got[1]), want=want[:200], got_len=len(x)))
        return {'st': 'ok', 'n': len(want)}, incs

    def ev_roundtrip(self, ev):
        """tofile -> real file -> read back by every reader."""
        if self.cfg['mode'] != 'read':
            return {'skip': 1}, []
        B = self.B
        data = bytes.fromhex(self.cfg['data'])
        allbits = bytes_to_bits(data)
        incs = []
        C = getattr(B, self.cfg['cls'])
        # odd length so that padding matters
        for cut_ in (0, 3):
            bits = allbits[:max(len(allbits) - cut_, 0)]
            if not bits:
                continue
            src = C(bin=bits)
            p = os.path.join(self.fs.dir, f'rt{cut_}')
            with open(p, 'wb') as f:
                st, v = call(src.tofile, f)
            if st != 'ok':
                incs.append(self.inc('roundtrip|tofile-raised', exc=kernel.canon(v)))
                continue
            with open(p, 'rb') as f:
                raw = f.read()
            if raw != bits_to_bytes(bits):
                incs.append(self.inc('roundtrip|file-content-mismatch', bits=bits[:100], raw=raw.hex()[:100]))
                continue
            # straight through a BytesIO: tofile() leaves it positioned at its end, the reader must not care
            bio = io.BytesIO()
            st, v = call(src.tofile, bio)
            if st != 'ok' or bio.getvalue() != raw:
                incs.append(self.inc('roundtrip|tofile-to-bytesio|content-mismatch', exc=kernel.canon(v) if st != 'ok' else None))
            else:
                st, x = call(C, bio, length=len(bits)) if cut_ else call(C, bio)
                if st != 'ok':
                    incs.append(self.inc('roundtrip|read-back=bytesio-as-written|raised', exc=kernel.canon(x)))
                elif call(lambda: x.bin) != ('ok', bits):
                    incs.append(self.inc('roundtrip|read-back=bytesio-as-written|content-mismatch', want=bits[:100], got=kernel.canon(call(lambda: x.bin)[1])))
            if raw:
                # written and read back through ONE handle opened for update, nothing flushed or closed in between
                p2 = os.path.join(self.fs.dir, f'rtw{cut_}')
                with open(p2, 'w+b') as f2:
                    st, v = call(src.tofile, f2)
                    st, x = call(C, f2, length=len(bits)) if cut_ else call(C, f2)
                    got = call(lambda: x.bin) if st == 'ok' else (st, x)
                if got != ('ok', bits):
                    incs.append(self.inc('roundtrip|read-back=same-update-handle-unflushed|' + ('raised' if got[0] != 'ok' else 'content-mismatch'),
                                         want=bits[:100], got=kernel.canon(got[1])[:100] if isinstance(got[1], str) else kernel.canon(got[1])))
                self.probe('roundtrip:same_handle')
            for how in ('filename', 'handle', 'bytes', 'bytesio'):
                hh = None
                try:
                    if how == 'filename':
                        st, x = call(C, filename=p, length=len(bits), offset=0) if cut_ else call(C, filename=p)
                    elif how == 'handle':
                        hh = open(p, 'rb')
                        st, x = call(C, hh, length=len(bits), offset=0) if cut_ else call(C, hh)
                    elif how == 'bytes':
                        st, x = call(C, bytes=raw, length=len(bits))
                    else:
                        st, x = call(C, io.BytesIO(raw), length=len(bits))
                finally:
                    if hh:
                        hh.close()
                mut = 'mutable' if self.cfg['cls'] in ('BitArray', 'BitStream') else 'const'
                trig = 'lazy-length' if (how in ('filename', 'handle') and cut_) else 'whole'
                if st != 'ok':
                    incs.append(self.inc(f'roundtrip|read-back={how}|{trig}|raised', exc=kernel.canon(x)))
                elif call(lambda: x.bin) != ('ok', bits):
                    incs.append(self.inc(f'roundtrip|read-back={how}|{trig}|{mut}|content-mismatch', want=bits[:100], got=kernel.canon(call(lambda: x.bin)[1])))
                else:
                    self.probe('roundtrip:ok')
        return {'ok': not incs}, incs

    def ev_fromfile(self, ev):
        if self.cfg['mode'] != 'fromfile':
            return {'skip': 1}, []
        B = self.B
        data = bytes.fromhex(self.cfg['data'])
        allbits = bytes_to_bits(data)
        dt = self.cfg['dtype']
        n, pre, via = ev.get('n'), ev.get('pre', 0), ev.get('via', 'handle')
        if n is not None and not isinstance(n, int):
            return {'skip': 'n is not an integer'}, []
        a = B.Array(dt)
        w = a.dtype.bitlength
        prebits = ('01' * w)[:w] * pre
        a.data = B.BitArray(bin=prebits)
        avail = len(allbits) // w
        take = avail if n is None else max(0, min(n, avail))     # a negative count selects nothing: refused (ValueError) or nothing appended
        want = prebits + allbits[:take * w]
        incs = []
        h = None
        try:
            if via == 'handle':
                if len(data) == 0:
                    return {'skip': 'empty file (C17 read-side empty-file case is covered by ev_read)'}, []
                if not hasattr(self, 'path'):
                    self.path = self.fs.new_file(data)
                h = open(self.path, 'rb')
                src = h
            elif via == 'bufreader':
                src = io.BufferedReader(io.BytesIO(data))       # an unnamed buffered stream (a pipe, a wrapped in-memory stream)
            else:
                src = io.BytesIO(data)
            st, v = call(a.fromfile, src, n) if n is not None else call(a.fromfile, src)
        finally:
            if h:
                h.close()
        short = n is not None and n > avail
        if short:
            self.probe('fromfile:short')
            if st != 'exc' or not exc_is(v, 'EOFError'):
                incs.append(self.inc('fromfile|short-without-EOFError', dtype=dt, n=n, avail=avail, outcome=st, exc=kernel.canon(v)))
        elif n is not None and n < 0:
            self.probe('fromfile:negative_count')
            if st != 'ok' and not exc_is(v, 'ValueError'):
                incs.append(self.inc('fromfile|negative-count-raised-other-than-ValueError', dtype=dt, n=n, exc=kernel.canon(v)))
        elif st != 'ok':
            incs.append(self.inc('fromfile|raised', dtype=dt, n=n, avail=avail, exc=kernel.canon(v)))
        got = kernel.safe_bin(a.data)
        if got != want:
            incs.append(self.inc('fromfile|content-mismatch', dtype=dt, n=n, avail=avail, via=via, got=got[:200], want=want[:200]))
        return {'st': st, 'items': take}, incs

    def simplify(self, ev):
        return kernel.simplify_generic(ev)
