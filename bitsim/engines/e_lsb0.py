"""E-LSB0 / C12 - LSB0 mode is a pure index mirror of MSB0 mode.

Replica L has its lsb0 option toggled by events; replica M stays msb0 for ever and is the oracle: while L is in
lsb0, M holds the bit-reversed twin of every live object and receives the same call with bit-reversed bitstring
operands and identical position arguments; bitstring results are reversed back.  Shifts / rotations are applied in
the opposite direction in M.  While L is in msb0 the two must agree verbatim.  DESIGN 4/C12.
"""
from __future__ import annotations

import io

from .. import kernel, loader
from ..kernel import Engine, call, canon, safe_bin

_REPL = None


def replicas():
    global _REPL
    if _REPL is None:
        _REPL = (loader.replica(), loader.replica())
    return _REPL


CLASSES = ('Bits', 'BitArray', 'ConstBitStream', 'BitStream')
MUTABLE = ('BitArray', 'BitStream')
STREAM = ('ConstBitStream', 'BitStream')

READ_OPS = ('getitem', 'getslice', 'find', 'rfind', 'findall', 'startswith', 'endswith', 'cut', 'count', 'all', 'any',
            'lshift', 'rshift', 'unpack', 'whole', 'pack', 'contains', 'iter', 'pp')
STREAM_OPS = ('read', 'peek', 'readlist', 'setpos')
MUT_OPS = ('setitem', 'setslice', 'setslice_int', 'delitem', 'delslice', 'set', 'invert', 'insert', 'overwrite',
           'append', 'prepend', 'iadd', 'reverse', 'byteswap', 'replace', 'ilshift', 'irshift', 'rol', 'ror', 'lazy_then', 'iter_then')


def rev(s):
    return s[::-1]


def mirror_uint(v, n):
    return int(rev(format(v, f'0{n}b')), 2) if n > 0 else 0


class ELsb0(Engine):
    prop = 'C12'
    name = 'E-LSB0'
    level = 'exploration'
    fault_kinds = ('toggle',)
    mutating_kinds = ('op',)
    rule = ('seeded runs over a pool of 1-3 live bitstrings (all four classes, lengths 0..70 and, in every 8th run, '
            '8193..20000 bits); events are position-taking operations with boundary-biased arguments and toggle events '
            'of options.lsb0; every operation is executed in the toggling replica and, mirrored, in a replica that '
            'never leaves msb0. Non-trivial = at least one operation AND at least one toggle; distinct = distinct '
            'event-list digest.')
    stub_components = ['none: both replicas are the real package']
    assumptions = ['the msb0 behaviour of the same tree is the reference, exactly as the statement defines the law',
                   'split is not in the statement\'s list and is not compared',
                   'generators (findall, cut) are consumed inside the event that creates them; a generator resumed '
                   'across a toggle has no mirror semantics and is left to C20']
    expected_probes = ('op_under_lsb0', 'op_after_toggle_back', 'mutator_under_lsb0', 'long_data_search',
                       'negative_step', 'bytealigned_search', 'toggle_with_live_objects', 'stream_read_under_lsb0', 'bytealigned_default_set', 'pack_same_format_again')

    def plan(self, tier, base_seed):
        runs = 6000 if tier == 'quick' else 600000
        return [{'seed': base_seed * 1_000_003 + i, 'n': 40 if tier == 'quick' else 60, 'avoid': i % 3 == 2,
                 'long': i % 8 == 3} for i in range(runs)]

    def config(self, g, desc):
        cfg = {'avoid': bool(desc.get('avoid')), 'long': bool(desc.get('long'))}
        n = g.int(1, 3)
        ents = []
        for j in range(n):
            cls = g.pick(CLASSES)
            if desc.get('long') and j == 0:
                ln = g.pick([8193, 8200, 9000, 16384, 16385, 20000])
                # sparse content so that patterns occur a handful of times
                bits = ['0'] * ln
                for _ in range(g.int(3, 30)):
                    p = g.int(0, ln - 4)
                    bits[p:p + 3] = list('101')
                bits = ''.join(bits)
            elif g.chance(0.15):
                # a few repeated byte values, whole bytes: occurrences of a two-byte pattern overlap and there are several of them
                b1, b2 = format(g.int(0, 255), '08b'), format(g.int(0, 255), '08b')
                bits = ''.join(g.pick([b1, b1, b2]) for _ in range(g.int(3, 9)))
            else:
                bits = g.bits(g.length(70))
            ents.append({'cls': cls, 'bits': bits})
        cfg['ents'] = ents
        cfg['lsb0'] = g.chance(0.6)
        cfg['toggle_w'] = g.pick([0, 1, 2, 4])
        # a second option in force at the same time: the module default for bytealigned (set alike in both replicas)
        cfg['bytealigned'] = g.chance(0.2)
        cfg['ba_w'] = g.pick([0, 0, 1, 2])
        return cfg

    # -------------------------------------------------------------------------------------------------
    def start(self, cfg):
        self.cfg = cfg
        self.L, self.M = replicas()
        self.L.reset()
        self.M.reset()
        self.lsb0 = bool(cfg.get('lsb0'))
        self.L.pkg.options.lsb0 = self.lsb0
        self.ents = []
        for e in cfg.get('ents', [])[:4]:
            cls = e.get('cls') if e.get('cls') in CLASSES else 'Bits'
            bits = ''.join(c for c in str(e.get('bits', '')) if c in '01')
            xl = getattr(self.L.pkg, cls)(bin=bits)
            xm = getattr(self.M.pkg, cls)(bin=rev(bits) if self.lsb0 else bits)
            self.ents.append([cls, xl, xm])
        if not self.ents:
            self.ents.append(['Bits', self.L.pkg.Bits(), self.M.pkg.Bits()])
        self.toggled = False
        self._last_pack = None
        for R in (self.L, self.M):
            R.pkg.options.bytealigned = bool(cfg.get('bytealigned'))
        return {'lsb0': self.lsb0, 'n': len(self.ents)}

    def cleanup(self):
        for R in replicas():
            try:
                R.reset()
            except Exception:
                pass

    # -------------------------------------------------------------------------------------------------
    def gen(self, g):
        cfg = self.cfg
        if g.r.random() < 0.03 * cfg['toggle_w']:
            want = (not self.lsb0) if g.chance(0.9) else self.lsb0
            # the option is documented as a bool; truthy / falsy ints are what callers write just as often
            return {'k': 'toggle', 'value': want if g.chance(0.7) else int(want)}
        if g.r.random() < 0.03 * cfg.get('ba_w', 0):
            return {'k': 'bytealigned', 'value': g.chance(0.6)}
        for _ in range(8):
            ev = self._gen_op(g)
            if not cfg['avoid'] or self.trigger(ev) == '-':
                return ev
        return {'k': 'op', 'op': 'whole', 'i': 0}

    def _operand(self, g, n):
        """A bitstring operand: bits plus the form it is passed in."""
        k = g.r.random()
        if k < 0.1:
            bits = ''
        elif k < 0.5:
            bits = g.bits(g.int(1, 4))
        elif k < 0.8:
            bits = g.bits(g.pick([8, 8, 16, 5, 12, 24]))
        else:
            bits = g.bits(g.int(1, 20))
        return bits, g.pick(['str', 'Bits', 'BitArray', 'ConstBitStream'])

    def _sub_operand(self, g, xbits):
        """An operand that actually occurs in the data (for searches)."""
        if not xbits or g.chance(0.3):
            return self._operand(g, len(xbits))
        ln = g.pick([1, 2, 3, 8, 8, 16, 5])
        p = g.int(0, max(len(xbits) - ln, 0))
        if g.chance(0.5) and len(xbits) >= 8:
            p = (p // 8) * 8
        return xbits[p:p + ln], g.pick(['str', 'Bits', 'BitArray'])

    def _gen_op(self, g):
        i = g.int(0, len(self.ents) - 1)
        cls, xl, xm = self.ents[i]
        xbits = safe_bin(xl)
        n = len(xbits)
        ops = list(READ_OPS)
        if cls in STREAM:
            ops += list(STREAM_OPS) * 2
        if cls in MUTABLE:
            ops += list(MUT_OPS) * 2
        if n > 8192:
            ops = ['find', 'rfind', 'findall', 'findall', 'cut', 'getslice', 'startswith', 'endswith', 'count', 'getitem'] + (['replace', 'reverse', 'set', 'invert'] if cls in MUTABLE else [])
        op = g.pick(ops)
        ev = {'k': 'op', 'op': op, 'i': i}
        ba = g.wpick([(None, 5), (False, 2), (True, 3)])
        if op in ('getitem', 'delitem'):
            ev['idx'] = g.pos(n) if n > 8192 or g.chance(0.7) else g.int(-n - 1, n)
        elif op in ('getslice', 'delslice'):
            ev.update(a=g.opt_pos(n), b=g.opt_pos(n), c=g.step())
        elif op == 'setitem':
            ev['idx'] = g.pos(n)
            if g.chance(0.5):
                ev['int'] = g.pick([0, 1, -1, 2])
            else:
                ev['v'], ev['v_form'] = g.bits(g.pick([1, 1, 1, 0, 3])), g.pick(['str', 'Bits'])
        elif op == 'setslice':
            ev.update(a=g.opt_pos(n), b=g.opt_pos(n), c=g.step())
            ev['v'], ev['v_form'] = self._operand(g, n)
            if ev['c'] not in (None, 1) and g.chance(0.7):
                # extended slices need a value of matching length
                ln = len(range(*slice(ev['a'], ev['b'], ev['c']).indices(n)))
                ev['v'] = g.bits(ln)
        elif op == 'setslice_int':
            ev.update(a=g.opt_pos(n), b=g.opt_pos(n), c=g.pick([None, None, 1, 2, -1, 3]))
            ev['int'] = g.pick([0, 1, 0, 1, 5, -1, -3, 255])
        elif op in ('set', 'invert'):
            how = g.pick(['none', 'int', 'list', 'list', 'range', 'tuple'])
            ev['how'] = how
            ev['value'] = g.pick([0, 1, True, False])
            if how == 'int':
                ev['pos'] = g.pos(n)
            elif how in ('list', 'tuple'):
                ev['pos'] = [g.pos(n, 1) if g.chance(0.15) else (g.int(-n, n - 1) if n else 0) for _ in range(g.int(0, 5))]
            elif how == 'range':
                ev['pos'] = [g.int(0, n), g.int(0, n + 1), g.pick([1, 1, 2, 3])]
        elif op == 'iter_then':
            # iteration in progress, a bit further on is written in place, iteration goes on: item k is x[k] when it is reached
            ev.update(take=g.int(0, min(n, 6)), idx=g.pos(n), how=g.pick(['setitem', 'invert', 'set', 'setslice']), value=g.pick([0, 1]))
        elif op == 'pp':
            ev.update(fmt=g.pick([None, 'bin', 'hex', 'bin, hex', 'uint:8', 'bits:3']), array=g.chance(0.5), width=g.pick([120, 40, 12]))
        elif op == 'lazy_then':
            # a findall / cut generator is made, the object is changed before the first item is asked for, then the
            # generator is consumed: a lazy result is set up on first use in msb0, so its lsb0 counterpart must be too
            ev['what'] = g.pick(['findall', 'findall', 'cut'])
            ev['bs'], ev['bs_form'] = self._sub_operand(g, xbits)
            ev.update(start=g.pick([None, None, 0, g.pos(n)]), end=g.pick([None, None, None, g.pos(n)]), bytealigned=g.pick([None, None, False, True]), count=g.pick([None, None, 2]),
                      bits=g.pick([1, 2, 3, 8]))
            ev['mut'] = g.pick(['prepend', 'append', 'insert', 'invert', 'reverse'])       # (never shrinking: a stale msb0 range beyond the new end has no defined meaning)
            ev['v'], ev['v_form'] = g.bits(g.pick([1, 2, 3, 8])), 'str'
            ev['pos'] = g.pos(n)
            ev['a'], ev['b'] = 0, g.int(0, min(n, 9))
        elif op in ('find', 'rfind', 'findall', 'replace', 'contains'):
            ev['bs'], ev['bs_form'] = self._sub_operand(g, xbits)
            if op != 'contains':
                ev.update(start=g.opt_pos(n), end=g.opt_pos(n), bytealigned=ba)
                if g.chance(0.5):
                    ev['start'] = ev['end'] = None
            if op == 'findall':
                ev['count'] = g.pick([None, None, 0, 1, 2, 5])
            if op == 'replace':
                ev['new'], ev['new_form'] = self._operand(g, n)
                ev['count'] = g.pick([None, None, 0, 1, 2])
                if n % 8 == 0 and n >= 24 and g.chance(0.5):
                    # whole-byte data, old and new, byte-aligned, old taken from a byte boundary of the data
                    p8 = 8 * g.int(0, n // 8 - 2)
                    ev['bs'], ev['bs_form'] = xbits[p8:p8 + 8 * g.pick([1, 2, 2])], 'str'
                    ev['new'], ev['new_form'] = g.bits(8 * g.pick([1, 1, 2, 3])), 'str'
                    ev.update(start=None, end=None, bytealigned=g.pick([True, True, None]), count=g.pick([None, 1, 1, 2]))
        elif op in ('startswith', 'endswith'):
            if g.chance(0.6) and n:
                ln = g.int(1, min(n, 12))
                ev['bs'] = xbits[:ln] if (op == 'startswith') != self.lsb0 else xbits[n - ln:]
                ev['bs_form'] = 'str'
            else:
                ev['bs'], ev['bs_form'] = self._operand(g, n)
            ev.update(start=g.opt_pos(n), end=g.opt_pos(n))
            if g.chance(0.5):
                ev['start'] = ev['end'] = None
        elif op == 'cut':
            ev.update(bits=g.pick([1, 3, 7, 8, 16, 0, -1, 4000]), start=g.opt_pos(n), end=g.opt_pos(n), count=g.pick([None, None, 0, 1, 3]))
            if g.chance(0.5):
                ev['start'] = ev['end'] = None
        elif op in ('count',):
            ev['value'] = g.pick([0, 1])
        elif op in ('all', 'any'):
            ev['value'] = g.pick([0, 1])
            ev['pos'] = None if g.chance(0.3) else [g.pos(n, 1) if g.chance(0.1) else (g.int(-n, n - 1) if n else 0) for _ in range(g.int(0, 4))]
        elif op in ('lshift', 'rshift', 'ilshift', 'irshift'):
            ev['n'] = g.pick([0, 1, 2, 7, 8, n - 1, n, n + 1, -1])
        elif op in ('rol', 'ror'):
            ev.update(n=g.pick([0, 1, 2, 7, 8, n, n + 3, -1]), start=g.opt_pos(n), end=g.opt_pos(n))
            if g.chance(0.5):
                ev['start'] = ev['end'] = None
        elif op in ('insert', 'overwrite'):
            ev['bs'], ev['bs_form'] = self._operand(g, n)
            ev['pos'] = g.pos(n)
            if cls == 'BitStream' and g.chance(0.2):
                ev['pos'] = None
        elif op in ('append', 'prepend', 'iadd'):
            ev['bs'], ev['bs_form'] = self._operand(g, n)
        elif op == 'reverse':
            ev.update(start=g.opt_pos(n), end=g.opt_pos(n))
            if g.chance(0.4):
                ev['start'] = ev['end'] = None
        elif op == 'byteswap':
            ev.update(fmt=g.pick([None, 0, 1, 2, 3, [1, 2], 'h', '2h', '<bh']), start=g.opt_pos(n), end=g.opt_pos(n), repeat=g.chance(0.7))
            if g.chance(0.5):
                ev['start'] = ev['end'] = None
        elif op in ('read', 'peek'):
            ev['fmt'] = g.pick([0, 1, 3, 8, n, n + 1, -1, 'bits:3', 'bin:4', 'uint:5', 'uint:8', 'bits:9', 'bin', 'bits'])
        elif op == 'readlist':
            ev['fmt'] = [g.pick([1, 3, 'bits:2', 'bin:3', 'uint:4', 8]) for _ in range(g.int(1, 3))]
        elif op == 'setpos':
            ev['pos'] = g.pos(n)
        elif op == 'unpack':
            ev['fmt'] = [g.pick(['bits:2', 'bin:3', 'uint:4', 'bits:8', 'uint:1', 5, 'bin', 'bits']) for _ in range(g.int(1, 4))]
        elif op == 'pack' and self._last_pack is not None and g.chance(0.5):
            # the very same format string again (new values): a parsed format is memoised, and must come back unchanged
            ev['toks'] = [[kind, w, g.bits(w) if kind not in ('hex',) else bits] for kind, w, bits in self._last_pack]
            self.probe('pack_same_format_again')
        elif op == 'pack':
            toks = []
            for _ in range(g.int(1, 4)):
                w = g.int(1, 9)
                kind = g.pick(['bits', 'bin', 'uint', 'kwname', 'kwvalue', 'kwlen', 'pad', 'hex'])
                if kind == 'hex':
                    w = 4 * g.int(1, 3)
                toks.append([kind, w, g.bits(w)])
            ev['toks'] = toks
            self._last_pack = toks
        if op == 'pack' and len(ev.get('toks', [])) >= 2 and g.chance(0.3):
            ev['split'] = g.int(1, len(ev['toks']) - 1)
        return ev

    # -------------------------------------------------------------------------------------------------
    def trigger(self, ev):
        """Trigger tag: narrow classification of the arguments that matter for known findings."""
        op = ev.get('op')
        tags = []
        if op in ('getslice', 'setslice', 'delslice', 'setslice_int') and isinstance(ev.get('c'), int) and ev.get('c') < 0:
            tags.append('negstep')
        if op in ('find', 'rfind', 'findall', 'replace') and (ev.get('bytealigned') is True):
            tags.append('bytealigned')
        if op in ('set', 'invert') and ev.get('how') == 'range':
            tags.append('range-arg')
        if op == 'setslice' and ev.get('c') in (None, 1):
            tags.append('plain-slice-assign')
        return '+'.join(tags) if tags else '-'

    def _bs(self, R, ev, name, mirror):
        bits = ''.join(c for c in str(ev.get(name, '')) if c in '01')
        if mirror:
            bits = rev(bits)
        form = ev.get(name + '_form', 'str')
        if form == 'str' or form not in CLASSES:
            return ('0b' + bits) if bits else ''
        return getattr(R.pkg, form)(bin=bits)

    def _run(self, R, x, ev, mirror):
        """Execute the operation on x in replica R.  mirror=True: bitstring operands reversed, shifts and
        rotations in the opposite direction.  Returns the raw result."""
        B = R.pkg
        op = ev.get('op')
        g = ev.get
        sl = slice(g('a'), g('b'), g('c'))
        if op == 'getitem':
            return x[int(g('idx', 0))]
        if op == 'getslice':
            return x[sl]
        if op == 'delitem':
            del x[int(g('idx', 0))]
            return None
        if op == 'delslice':
            del x[sl]
            return None
        if op == 'setitem':
            if 'int' in ev:
                x[int(g('idx', 0))] = int(g('int'))
            else:
                x[int(g('idx', 0))] = self._bs(R, ev, 'v', mirror)
            return None
        if op == 'setslice':
            x[sl] = self._bs(R, ev, 'v', mirror)
            return None
        if op == 'setslice_int':
            v = int(g('int', 0))
            if mirror and sl.step in (None, 1):
                # an integer is a whole value (identical in both modes): what is mirrored is its encoding in the
                # number of bits the slice selects
                n = len(range(*sl.indices(len(x))))
                enc = B.Bits(uint=v, length=n) if v >= 0 else B.Bits(int=v, length=n)
                x[sl] = B.Bits(bin=rev(enc.bin))
            else:
                x[sl] = v
            return None
        if op in ('set', 'invert'):
            how = g('how')
            p = g('pos')
            if how == 'none' or p is None:
                arg = None
            elif how == 'int':
                arg = int(p)
            elif how == 'tuple':
                arg = tuple(p)
            elif how == 'range':
                arg = range(*[int(v) for v in p][:3]) if (len(p) >= 3 and int(p[2]) != 0) else list(p)
            else:
                arg = list(p)
            if op == 'set':
                return x.set(g('value', 1), arg) if arg is not None else x.set(g('value', 1))
            return x.invert(arg) if arg is not None else x.invert()
        if op == 'lazy_then':
            if g('what') == 'cut':
                gen = x.cut(max(int(g('bits', 1)), 1), g('start'), g('end'), g('count'))
            else:
                gen = x.findall(self._bs(R, ev, 'bs', mirror), g('start'), g('end'), g('count'), g('bytealigned'))
            mut = g('mut')
            v = self._bs(R, ev, 'v', mirror)
            if mut == 'prepend':
                x.prepend(v)
            elif mut == 'append':
                x.append(v)
            elif mut == 'insert':
                x.insert(v, min(max(int(g('pos', 0)), 0), len(x)))
            elif mut == 'delslice':
                del x[int(g('a', 0)):int(g('b', 0))]
            elif mut == 'reverse':
                x.reverse()
            else:
                x.invert()
            return list(gen)
        if op == 'iter_then':
            it = iter(x)
            out = [bool(v) for _, v in zip(range(max(int(g('take', 0)), 0)), it)]
            n_ = len(x)
            if n_:
                i_ = int(g('idx', 0)) % n_
                how = g('how')
                if how == 'invert':
                    x.invert(i_)
                elif how == 'set':
                    x.set(bool(g('value', 1)), i_)
                elif how == 'setslice':
                    x[i_:i_ + 1] = '0b1' if g('value', 1) else '0b0'
                else:
                    x[i_] = bool(g('value', 1))
            out.extend(bool(v) for _, v in zip(range(400), it))
            return out
        if op == 'pp':
            # pretty-printing (of the bitstring, or of an Array over a copy of its bits) is a reader: it leaves the module options alone
            out_ = io.StringIO()
            if g('array'):
                a_ = B.Array('uint8', B.BitArray(x) if len(x) else None)
                a_.pp(g('fmt') if g('fmt') in ('bin', 'hex', 'uint:8') else None, int(g('width', 120)), True, out_)
            else:
                x.pp(g('fmt'), int(g('width', 120)), ' ', True, out_)
            return len(out_.getvalue()) > 0
        if op == 'iter':
            # iteration goes by position: item k is x[k] in the mode in force
            return [bool(v) for _, v in zip(range(400), x)]
        if op in ('find', 'rfind'):
            return getattr(x, op)(self._bs(R, ev, 'bs', mirror), g('start'), g('end'), g('bytealigned'))
        if op == 'contains':
            return self._bs(R, ev, 'bs', mirror) in x
        if op == 'findall':
            return list(x.findall(self._bs(R, ev, 'bs', mirror), g('start'), g('end'), g('count'), g('bytealigned')))
        if op == 'replace':
            return x.replace(self._bs(R, ev, 'bs', mirror), self._bs(R, ev, 'new', mirror), g('start'), g('end'), g('count'), g('bytealigned'))
        if op in ('startswith', 'endswith'):
            return getattr(x, op)(self._bs(R, ev, 'bs', mirror), g('start'), g('end'))
        if op == 'cut':
            out = []
            for j, piece in enumerate(x.cut(int(g('bits', 1)), g('start'), g('end'), g('count'))):
                out.append(piece)
                if j > 3000:
                    break
            return out
        if op == 'count':
            return x.count(g('value', 1))
        if op in ('all', 'any'):
            return getattr(x, op)(g('value', 1), g('pos')) if g('pos') is not None else getattr(x, op)(g('value', 1))
        if op in ('lshift', 'rshift'):
            left = (op == 'lshift') != mirror
            return (x << int(g('n', 0))) if left else (x >> int(g('n', 0)))
        if op in ('ilshift', 'irshift'):
            left = (op == 'ilshift') != mirror
            if left:
                x <<= int(g('n', 0))
            else:
                x >>= int(g('n', 0))
            return None
        if op in ('rol', 'ror'):
            left = (op == 'rol') != mirror
            return (x.rol if left else x.ror)(int(g('n', 0)), g('start'), g('end'))
        if op in ('insert', 'overwrite'):
            b = self._bs(R, ev, 'bs', mirror)
            if g('pos') is None and kernel.is_stream(x):
                return getattr(x, op)(b)
            return getattr(x, op)(b, int(g('pos') or 0))
        if op in ('append', 'prepend'):
            return getattr(x, op)(self._bs(R, ev, 'bs', mirror))
        if op == 'iadd':
            x += self._bs(R, ev, 'bs', mirror)       # += is append()
            return None
        if op == 'reverse':
            return x.reverse(g('start'), g('end'))
        if op == 'byteswap':
            fmt = g('fmt')
            return x.byteswap(fmt, g('start'), g('end'), bool(g('repeat', True)))
        if op in ('read', 'peek'):
            return getattr(x, op)(g('fmt', 0))
        if op == 'readlist':
            return x.readlist(list(g('fmt', [])))
        if op == 'setpos':
            x.pos = int(g('pos', 0))
            return None
        if op == 'unpack':
            return x.unpack(list(g('fmt', [])))
        if op == 'pack':
            fmt, vals, kw = [], [], {}
            for j, (kind, w, bits) in enumerate(g('toks', [])):
                bits = ''.join(c for c in str(bits) if c in '01')
                if mirror and kind != 'pad':
                    bits = rev(bits)
                if kind == 'uint':
                    fmt.append(f'uint:{len(bits)}')
                    vals.append(int(bits, 2) if bits else 0)
                elif kind == 'bin':
                    fmt.append(f'bin:{len(bits)}')
                    vals.append(bits)
                elif kind == 'kwname':
                    # a token that is just the name of a keyword argument holding a bitstring
                    fmt.append(f'kn{j}')
                    kw[f'kn{j}'] = B.Bits(bin=bits)
                elif kind == 'kwvalue':
                    # the value of a token given by keyword
                    fmt.append(f'uint:{len(bits)}=kv{j}')
                    kw[f'kv{j}'] = int(bits, 2) if bits else 0
                elif kind == 'kwlen':
                    fmt.append(f'bits:kl{j}')
                    kw[f'kl{j}'] = len(bits)
                    vals.append(B.Bits(bin=bits))
                elif kind == 'pad':
                    fmt.append(f'pad:{len(bits)}')
                elif kind == 'hex' and len(bits) % 4 == 0 and bits:
                    fmt.append(f'0x{int(bits, 2):0{len(bits) // 4}x}')
                else:
                    fmt.append(f'bits:{len(bits)}')
                    vals.append(B.Bits(bin=bits))
            cutp = g('split')
            if isinstance(cutp, int) and not isinstance(cutp, bool) and 0 < cutp < len(fmt):
                # the same tokens handed over as a list of two format strings
                return B.pack([', '.join(fmt[:cutp]), ', '.join(fmt[cutp:])], *vals, **kw)
            return B.pack(', '.join(fmt), *vals, **kw)
        if op == 'whole':
            return self._whole(x)
        return None

    def _whole(self, x):
        n = len(x)
        out = {'len': n}
        for name, fn in (('bin', lambda: x.bin), ('bytes', lambda: x.tobytes().hex())):
            st, v = call(fn)
            out[name] = v if st == 'ok' else {'exc': kernel.exc_name(v)}
        for name in ('uint', 'int', 'hex', 'oct'):
            st, v = call(getattr, x, name)
            out[name] = canon(v) if st == 'ok' else {'exc': kernel.exc_name(v)}
        if n in (16, 32, 64):
            st, v = call(getattr, x, 'float')
            out['float'] = canon(v) if st == 'ok' else {'exc': kernel.exc_name(v)}
        if n % 8 == 0 and n:
            for name in ('uintle', 'intbe'):
                st, v = call(getattr, x, name)
                out[name] = canon(v) if st == 'ok' else {'exc': kernel.exc_name(v)}
        return out

    def _unmirror(self, ev, val):
        """Turn M's result (computed on mirrored operands) back into L's coordinates."""
        op = ev.get('op')
        if kernel.is_bits(val):
            d = canon(val)
            d['bin'] = rev(d['bin'])
            return d
        if (op in ('cut',) or (op == 'lazy_then' and ev.get('what') == 'cut')) and isinstance(val, list):
            return [self._unmirror(ev, v) for v in val]
        if op in ('read', 'peek', 'readlist', 'unpack'):
            fmts = ev.get('fmt')
            if not isinstance(fmts, list):
                fmts = [fmts]
                vals = [val]
            else:
                vals = list(val) if isinstance(val, list) else [val]
            out = []
            for f, v in zip(fmts, vals):
                if kernel.is_bits(v):
                    out.append(self._unmirror(ev, v))
                elif isinstance(v, str):
                    out.append(rev(v))
                elif isinstance(v, int) and not isinstance(v, bool) and isinstance(f, str) and f.startswith('uint:'):
                    out.append(mirror_uint(v, int(f.split(':')[1])))
                else:
                    out.append(canon(v))
            return out if isinstance(ev.get('fmt'), list) else out[0]
        return canon(val)

    def _canon_l(self, ev, val):
        if ev.get('op') in ('read', 'peek') and not isinstance(ev.get('fmt'), list):
            return canon(val)
        return canon(val)

    # -------------------------------------------------------------------------------------------------
    def apply(self, ev):
        k = ev.get('k')
        if k == 'toggle':
            return self._toggle(ev)
        if k == 'bytealigned':
            for R in (self.L, self.M):
                R.pkg.options.bytealigned = bool(ev.get('value'))
            self.probe('bytealigned_default_set')
            return {'bytealigned': bool(ev.get('value'))}, []
        if k != 'op':
            return {'skip': k}, []
        incs = []
        i = int(ev.get('i', 0)) % len(self.ents)
        cls, xl, xm = self.ents[i]
        op = ev.get('op')
        if op in MUT_OPS and cls not in MUTABLE:
            return {'skip': 'immutable'}, []
        if op in STREAM_OPS and cls not in STREAM:
            return {'skip': 'not a stream'}, []
        mirror = self.lsb0
        if op == 'setslice_int' and ev.get('c') not in (None, 1) and (ev.get('c') == -1 or ev.get('int') not in (0, 1)):
            # outside the mirror law's reach: step -1 sizes the integer by the forward slice (a C03 matter) and a
            # multi-bit integer cannot be assigned to a stepped slice at all
            return {'skip': 'setslice_int with step -1 / multi-bit int on a stepped slice'}, []
        trig = self.trigger(ev)
        if safe_bin(xl) and len(safe_bin(xl)) > 8192 and op in ('find', 'rfind', 'findall', 'replace'):
            self.probe('long_data_search')
            trig = (trig + '+long') if trig != '-' else 'long'
        if mirror:
            self.probe('op_under_lsb0')
            if op in MUT_OPS:
                self.probe('mutator_under_lsb0')
            if op in STREAM_OPS:
                self.probe('stream_read_under_lsb0')
        elif self.toggled:
            self.probe('op_after_toggle_back')
        if 'negstep' in trig:
            self.probe('negative_step')
        if 'bytealigned' in trig:
            self.probe('bytealigned_search')
        before_l = safe_bin(xl)
        stl, vl = call(self._run, self.L, xl, ev, False)
        if op == 'whole':
            # whole-value interpretations: identical to the msb0 library's on the same (un-mirrored) bits
            stm, vm = call(self._run, self.M, getattr(self.M.pkg, cls)(bin=before_l), ev, False)
            mirror = False
        else:
            stm, vm = call(self._run, self.M, xm, ev, mirror)
        ol = canon(vl) if stl == 'ok' else {'exc': kernel.exc_name(vl)}
        if stm == 'ok':
            om = self._unmirror(ev, vm) if (mirror and op != 'whole') else canon(vm)
        else:
            om = {'exc': kernel.exc_name(vm)}
        mirror = self.lsb0
        mode = 'lsb0' if mirror else 'msb0'
        bad = False
        if stl != stm:
            disc = ('raised:' + kernel.exc_name(vl) + '-but-mirror-succeeds') if stl == 'exc' else 'succeeds-but-mirror-raises:' + kernel.exc_name(vm)
            incs.append(self.inc(f'{op}|{mode}|{trig}|{disc}', event=ev, content=before_l[:120], n=len(before_l), lsb0_result=ol, mirror_result=om))
            bad = True
        elif stl == 'exc':
            if kernel.exc_name(vl) != kernel.exc_name(vm):
                # class within the documented set may legitimately differ only if both are documented; an internal
                # error class on the lsb0 side is C20's business but is also a mirror failure when msb0 is clean
                if not kernel.exc_documented(vl) and kernel.exc_documented(vm):
                    incs.append(self.inc(f'{op}|{mode}|{trig}|raised:{kernel.exc_name(vl)}-mirror-raises:{kernel.exc_name(vm)}', event=ev, content=before_l[:120]))
                    bad = True
        elif ol != om:
            incs.append(self.inc(f'{op}|{mode}|{trig}|result-mismatch', event=ev, content=before_l[:120], n=len(before_l), lsb0_result=_short(ol), mirror_result=_short(om)))
            bad = True
        # content and position after the event
        al, am = safe_bin(xl), safe_bin(xm)
        if (rev(am) if mirror else am) != al:
            if not bad:
                incs.append(self.inc(f'{op}|{mode}|{trig}|content-mismatch', event=ev, before=before_l[:120], lsb0_after=al[:120], mirror_after=(rev(am) if mirror else am)[:120]))
            bad = True
        if cls in STREAM and (kernel.get_pos(xl) if kernel.is_stream(xl) else 0) != (kernel.get_pos(xm) if kernel.is_stream(xm) else 0):
            if not bad:
                incs.append(self.inc(f'{op}|{mode}|{trig}|pos-mismatch', event=ev, content=before_l[:120], lsb0_pos=kernel.get_pos(xl), mirror_pos=kernel.get_pos(xm)))
            bad = True
        # the option is what the last toggle left (no call switches the bit numbering behind the caller's back)
        if bool(self.L.pkg.options.lsb0) != self.lsb0 or bool(self.M.pkg.options.lsb0):
            incs.append(self.inc(f'{op}|{mode}|{trig}|option-lsb0-changed-by-the-call', event=ev, now=[bool(self.L.pkg.options.lsb0), bool(self.M.pkg.options.lsb0)], expected=[self.lsb0, False]))
            self.L.pkg.options.lsb0 = self.lsb0
            self.M.pkg.options.lsb0 = False
            bad = True
        if bad:
            # resynchronise the oracle side from the subject
            self._rebuild(i)
        self.state(mode, cls, min(len(al) // 16, 6), len(al) > 8192)
        self.transition(op, stl, mode, trig)
        return {'l': _short(ol), 'same': not bad}, incs

    def _rebuild(self, i):
        cls, xl, xm = self.ents[i]
        bits = safe_bin(xl)
        pos = (kernel.get_pos(xl) if kernel.is_stream(xl) else None)
        if pos is not None and not 0 <= pos <= len(bits):
            pos = 0
            kernel.set_pos(xl, pos)
        xm = getattr(self.M.pkg, cls)(bin=rev(bits) if self.lsb0 else bits)
        if pos is not None:
            kernel.set_pos(xm, pos)
        self.ents[i][2] = xm

    def _toggle(self, ev):
        incs = []
        self._pending_inc = None
        raw = ev.get('value')
        raw = raw if isinstance(raw, (bool, int)) else bool(raw)
        before = [(self._whole(xl), self._hash_eq(xl, xm)) for cls, xl, xm in self.ents]
        hb = [self._hash_probe(cls, xl) for cls, xl, xm in self.ents]
        call(setattr, self.L.pkg.options, 'lsb0', raw)
        # the mode in force is whatever the option now reads (an assignment the library refuses leaves it as it was)
        new = bool(self.L.pkg.options.lsb0)
        changed = new != self.lsb0
        self.lsb0 = new
        ha = [self._hash_probe(cls, xl) for cls, xl, xm in self.ents]
        for j, (b_, a_) in enumerate(zip(hb, ha)):
            if b_ is not None and b_ != a_:
                incs_h = self.inc('toggle|hash-changed', cls=self.ents[j][0], n=len(safe_bin(self.ents[j][1])), lsb0=new)
                self._pending_inc = incs_h
        after = [(self._whole(xl), None) for cls, xl, xm in self.ents]
        for j, ((b, _), (a, _)) in enumerate(zip(before, after)):
            if a != b:
                incs.append(self.inc('toggle|whole-value-changed', cls=self.ents[j][0], before=_short(b), after=_short(a), lsb0=new))
        # whole-value interpretations identical to the msb0 library's on the same (un-mirrored) bits
        for j, (cls, xl, xm) in enumerate(self.ents):
            ref = self._whole(getattr(self.M.pkg, cls)(bin=safe_bin(xl)))
            if ref != after[j][0]:
                incs.append(self.inc('whole|interpretation-differs-from-msb0', cls=cls, lsb0=new, got=_short(after[j][0]), want=_short(ref)))
        if self._pending_inc is not None:
            incs.append(self._pending_inc)
        # ==, hash: an immutable object hashes like the msb0 library's object of the same bits, in either mode
        for j, (cls, xl, xm) in enumerate(self.ents):
            if cls in ('Bits', 'ConstBitStream'):
                st, same = call(lambda: hash(xl) == hash(getattr(self.L.pkg, cls)(bin=safe_bin(xl))) and xl == getattr(self.L.pkg, 'Bits')(bin=safe_bin(xl)))
                if st != 'ok' or not same:
                    incs.append(self.inc('whole|hash-or-eq-differs-from-equal-object', cls=cls, lsb0=new, n=len(safe_bin(xl))))
        for j in range(len(self.ents)):
            self._rebuild(j)
        if changed:
            self.toggled = True
            self.fault('lsb0_toggle')
            self.probe('toggle_with_live_objects')
        if self.M.pkg.options.lsb0:
            incs.append(self.inc('toggle|leaked-into-other-replica'))
        return {'lsb0': new}, incs

    def _hash_eq(self, xl, xm):
        return None

    def _hash_probe(self, cls, x):
        """hash of an immutable object (compared before / after a toggle only; never logged: it depends on PYTHONHASHSEED)."""
        if cls not in ('Bits', 'ConstBitStream'):
            return None
        st, h = call(hash, x)
        return h if st == 'ok' else 'exc'

    def finish(self):
        """Switching the option off restores msb0 behaviour exactly: a fixed probe program agrees with M."""
        incs = []
        self.L.pkg.options.lsb0 = False
        self.lsb0 = False
        for j in range(len(self.ents)):
            self._rebuild(j)
        for j, (cls, xl, xm) in enumerate(self.ents):
            n = len(safe_bin(xl))
            for ev in ({'k': 'op', 'op': 'getslice', 'i': j, 'a': 1, 'b': None, 'c': 2},
                       {'k': 'op', 'op': 'find', 'i': j, 'bs': '1', 'bs_form': 'str'},
                       {'k': 'op', 'op': 'getitem', 'i': j, 'idx': 0},
                       {'k': 'op', 'op': 'cut', 'i': j, 'bits': 3}):
                stl, vl = call(self._run, self.L, xl, ev, False)
                stm, vm = call(self._run, self.M, xm, ev, False)
                ol = canon(vl) if stl == 'ok' else {'exc': kernel.exc_name(vl)}
                om = canon(vm) if stm == 'ok' else {'exc': kernel.exc_name(vm)}
                if ol != om:
                    incs.append(self.inc(f'restore|{ev["op"]}|msb0-behaviour-not-restored', lsb0_side=_short(ol), msb0_side=_short(om)))
        return incs

    def simplify(self, ev):
        return kernel.simplify_generic(ev)


def _short(o):
    s = kernel.jdump(o)
    return o if len(s) < 300 else {'digest': kernel.digest(o)[:16], 'head': s[:200]}
