"""E-MUT / C03 - in-place mutations equal their sequence-level specification; nothing else moves.

World: ONE BitArray or BitStream (chosen in the run configuration) and a reference model M, a Python str of
'0'/'1'.  Every event is one mutating call with arbitrary arguments; the specification of the call (`_spec`) is
written from the docstrings / doc/bitarray.rst / behaviour pinned by the unedited suite and says, for the CURRENT
model state, which outcomes are acceptable:

    ok      list of (new content, return value) the call may succeed with        (empty: the call must raise)
    rz      exception classes the call may raise (None: it must not raise); after a raise the content must be one
            of `rstate` (the old content; for set/invert with an iterable also the old content with exactly the
            valid positions that preceded the bad one / the producer fault applied)
    frame   (a, b, length_may_change): checked on the real pre/post state directly, independent of M

Faults: rejected calls, FaultyIterable producers (positions, byte sizes, bool operands), cache clears, and the
options.bytealigned reconfiguration.  `pos` of a BitStream is ignored entirely (E-STREAM owns it).  DESIGN 4/C03.
"""
from __future__ import annotations

import io
import operator
import re

from .. import kernel, loader
from ..envs import FaultyIterable, InjectedProducerFault, bits_to_bytes
from ..kernel import Engine, call

# ---------------------------------------------------------------------------------------------------------
# constants
# ---------------------------------------------------------------------------------------------------------

ANY = ('ValueError', 'IndexError', 'TypeError', 'Error')
VE = ('ValueError',)
IE = ('IndexError',)
ER = ('Error',)
PF = ('InjectedProducerFault',)

NONE, SELF = 'none', 'self'            # return-value sentinels (ints stand for themselves)

OBJ_FORMS = ('Bits', 'BitArray', 'ConstBitStream', 'BitStream')
STR_FORMS = ('bin', 'hex', 'oct')
BYTE_FORMS = ('bytes', 'bytearray', 'memoryview', 'bytesio', 'bytesio_written')
SEQ_FORMS = ('list', 'tuple', 'iterable')
BAD_FORMS = ('int', 'none', 'float', 'badstr', 'badbin')
GOOD_FORMS = OBJ_FORMS + STR_FORMS + BYTE_FORMS + SEQ_FORMS

OP_NAMES = {'append': 'append', 'iadd': '+=', 'prepend': 'prepend', 'insert': 'insert', 'overwrite': 'overwrite',
            'del': 'del[i]', 'delslice': 'del[a:b:c]', 'setitem': 's[i]=v', 'setslice': 's[a:b:c]=v',
            'replace': 'replace', 'reverse': 'reverse', 'rol': 'rol', 'ror': 'ror', 'set': 'set',
            'invert': 'invert', 'byteswap': 'byteswap', 'ilshift': '<<=', 'irshift': '>>=', 'imul': '*=',
            'iand': '&=', 'ior': '|=', 'ixor': '^=', 'clear': 'clear'}
ALL_OPS = tuple(sorted(OP_NAMES))
SHRINKERS = ('delslice', 'delslice', 'clear', 'setslice', 'replace')

# Trigger tags of the defects the unchanged tree is known to have (DESIGN 4/C03 "Seen today" plus what this engine
# found).  Avoidance runs never emit an event carrying one of these tags.  ('norepeat-past-end', the byteswap
# (repeat=False) pattern running past `end`, keeps its own tag but is no longer avoided: /repo commit a15c797 fixed it.)
AVOID_TAGS = frozenset()
# (Every defect these trigger tags were introduced for has been repaired in /repo - see known_findings.txt - so nothing
#  is avoided or thinned at present; the tags remain as labels in signatures: 'fmt-iterator', 'empty-range',
#  'self-operand,pos!=0', 'range-oob', 'range-neg-bound', 'empty,pos=None', 'int,step=-1,fwd-len-differs',
#  'int,step<-1,to-start', 'int,step<-1,from-before-start'.  A future `known:` entry puts its tag back here.)

PACK_SIZE = {'b': 1, 'B': 1, 'h': 2, 'H': 2, 'l': 4, 'L': 4, 'i': 4, 'I': 4, 'q': 8, 'Q': 8, 'e': 2, 'f': 4, 'd': 8}
_FMT_RE = re.compile(r'^[<>@=]?((?:\d*[bBhHlLiIqQefd])+)$')
_FMT_ITEM_RE = re.compile(r'(\d*)([bBhHlLiIqQefd])')
INTERNAL_LIMIT = 1 << 16               # no event may produce more bits than this (apply stays cheap and total)


OBSERVERS = ('find', 'find', 'rfind', 'findall', 'count', 'tobytes', 'interp', 'len', 'eq', 'getitem', 'slice', 'startswith', 'iter', 'all_any', 'copy', 'cut', 'str', 'unpack')


class Exp:
    """What the specification allows for one call in the current state."""
    __slots__ = ('ok', 'rz', 'rstate', 'tag', 'frame', 'fault', 'skip')

    def __init__(self, ok=None, rz=None, rstate=None, tag=None, frame=None, fault=False, skip=None):
        self.ok = ok or []
        self.rz = rz
        self.rstate = rstate
        self.tag = tag
        self.frame = frame
        self.fault = fault
        self.skip = skip


def _isint(x):
    return isinstance(x, int) and not isinstance(x, bool)


def _intval(v):
    """The integer of an integer-valued item/slice assignment, else None ({'int': x} or the operand form 'int')."""
    if isinstance(v, dict):
        if 'int' in v:
            x = v['int']
        elif v.get('f') == 'int':
            x = v.get('x', 3)
        else:
            return None
        if not isinstance(x, int):
            raise TypeError('int value')
        return int(x)
    return None


def _norm_range(M, start, end):
    """Bits._validate_slice as documented: None defaults, negative from the end, 0 <= start <= end <= len."""
    n = len(M)
    if not (start is None or _isint(start)) or not (end is None or _isint(end)):
        return None
    a = 0 if start is None else (start + n if start < 0 else start)
    b = n if end is None else (end + n if end < 0 else end)
    if not 0 <= a <= b <= n:
        return None
    return a, b


def _exc_matches(e, names):
    for c in type(e).__mro__:
        nm = c.__name__
        if nm in names:
            if nm == 'Error' and not c.__module__.startswith('bitstring'):
                continue
            return True
    return False


def _parse_fmt(s):
    """Byte sizes of a compact struct string, or None if it is not one."""
    if not isinstance(s, str):
        return None
    m = _FMT_RE.match(s)
    if not m:
        return None
    sizes = []
    for cnt, code in _FMT_ITEM_RE.findall(m.group(1)):
        k = int(cnt) if cnt else 1
        if k > 4096:
            return 'huge'
        sizes.extend([PACK_SIZE[code]] * k)
    return sizes


def _swap(M, a, sizes, reps):
    out = list(M)
    total = 8 * sum(sizes)
    for r in range(reps):
        p = a + r * total
        for sz in sizes:
            seg = M[p:p + 8 * sz]
            out[p:p + 8 * sz] = ''.join(seg[i:i + 8] for i in range(len(seg) - 8, -1, -8))
            p += 8 * sz
    return ''.join(out)


# ---------------------------------------------------------------------------------------------------------
# the engine
# ---------------------------------------------------------------------------------------------------------

class EMut(Engine):
    prop = 'C03'
    name = 'E-MUT'
    level = 'exploration'
    fault_kinds = ('reject', 'pfault', 'cache_clear', 'option')
    mutating_kinds = ('op', 'pfault')
    rule = ('seeded runs: one BitArray or BitStream per run plus a str-of-bits model; each event is one mutating call '
            '(24 op kinds, swarm-selected per run) with operands in every promotable form incl. self, positions in/at/'
            'beyond both ends, or a rejected call, a faulty producer, a cache clear or an options.bytealigned change; '
            'every third run avoids the trigger patterns of known findings; a quarter of the runs are no-fault runs '
            '(valid calls and option changes only).  A run is non-trivial if it executed at least one accepted mutating '
            'call AND at least one rejected call / producer fault / cache clear / option change; distinct = distinct '
            'event-list digest.')
    stub_components = ['FaultyIterable (caller-side producer of positions / byte sizes / bools that raises at element k)']
    assumptions = ['a fifth of the runs execute under options.lsb0 = True, where the specification is the msb0 specification on the '
                   'bit-reversed content and operands, reversed back (toggling the option mid-run is C12 territory)',
                   'pos of a BitStream is ignored (C06 owns it); an explicit pos is always passed to insert/overwrite '
                   'except in the low-weight pos=None form, which takes the current pos as an input',
                   'exception class inside {ValueError, IndexError, TypeError, bitstring.Error} is unconstrained except '
                   'where a docstring names it']
    expected_probes = ('operand:self', 'reject:state-unchanged', 'pfault:prefix-applied', 'pfault:unchanged',
                       'cache_clear', 'option:bytealigned-decided-replace', 'overwrite:extends', 'replace:overlap-skipped',
                       'replace:multi', 'byteswap:repeats>1', 'byteswap:struct-string', 'setslice:int-limit',
                       'setslice:negative-step', 'len:crosses-64', 'run:nofault', 'run:fault', 'run:avoid',
                       'cls:BitArray', 'cls:BitStream', 'insert:from-end', 'shift:beyond-len', 'rotate:subrange', 'run:lsb0', 'observe', 'lazy:make', 'lazy:step', 'assign:bytes')

    # ---------------------------------------------------------------------------------------------------
    def plan(self, tier, base_seed):
        return self.seeded_plan(tier, base_seed, quick=(100000, 30), thorough=(1300000, 60))

    def config(self, g, desc):
        nops = g.int(5, len(ALL_OPS))
        ops = list(ALL_OPS)
        g.r.shuffle(ops)
        ops = sorted(ops[:nops])
        fault = not g.chance(0.25)
        cfg = {
            'cls': g.pick(['BitArray', 'BitStream']),
            'bits': g.bits(g.length(g.pick([24, 40, 40, 72, 160]))),
            'avoid': bool(desc.get('avoid')),
            'fault': fault,
            'ops': ops,
            'maxlen': g.pick([48, 96, 96, 320]),
            'p_self': g.pick([0.0, 0.05, 0.15]),
            'p_bad': g.pick([0.0, 0.03, 0.1]) if fault else 0.0,
            'p_pf': g.pick([0.0, 0.05, 0.15]) if fault else 0.0,
            'p_cache': g.pick([0.0, 0.03, 0.08]) if fault else 0.0,
            'p_opt': g.pick([0.0, 0.04, 0.1]),
            'p_wild': g.pick([0.1, 0.3, 0.5]) if fault else 0.15,
            'ba0': g.chance(0.15),
            'lsb0': g.chance(0.2),
            # what the subject is built from (the same bits every time): its history must not show in what a mutator does
            'via': g.pick(['bin', 'bin', 'bytes', 'auto_bytes', 'auto_bytearray', 'auto_memoryview', 'bits_obj', 'hex']),
        }
        return cfg

    # ---------------------------------------------------------------------------------------------------
    def start(self, cfg):
        self.R = loader.main()
        self.R.reset()
        self.B = self.R.pkg
        self.cfg = cfg
        self.cname = cfg.get('cls', 'BitArray') if cfg.get('cls') in ('BitArray', 'BitStream') else 'BitArray'
        self.C = getattr(self.B, self.cname)
        bits = cfg.get('bits', '')
        if not isinstance(bits, str) or set(bits) - {'0', '1'}:
            bits = ''
        self.M = bits
        self.s = self._build(bits)
        self.ba = bool(cfg.get('ba0', False))
        self._last = None
        self._rep_info = None
        self.B.options.bytealigned = self.ba
        self.lsb0 = bool(cfg.get('lsb0', False))
        self._mirror = False
        self.gens = {}
        if self.lsb0:
            self.B.options.lsb0 = True
            self.probe('run:lsb0')
        self.probe('cls:' + self.cname)
        self.probe('run:fault' if cfg.get('fault', True) else 'run:nofault')
        if cfg.get('avoid'):
            self.probe('run:avoid')
        self.state(self.cname, self._lb(len(bits)), self.ba)
        return {'cls': self.cname, 'bin': self._bin()}

    def cleanup(self):
        R = getattr(self, 'R', None)
        if R is not None:
            R.reset_options()

    def _build(self, bits):
        if not bits:
            return self.C()
        via = self.cfg.get('via', 'bin')
        whole = len(bits) % 8 == 0
        if via == 'bytes':
            return self.C(bytes=bits_to_bytes(bits), length=len(bits))
        if via == 'auto_bytes' and whole:
            return self.C(bits_to_bytes(bits))
        if via == 'auto_bytearray' and whole:
            return self.C(bytearray(bits_to_bytes(bits)))
        if via == 'auto_memoryview' and whole:
            return self.C(memoryview(bits_to_bytes(bits)))
        if via == 'bits_obj':
            return self.C(self.B.Bits(bin=bits))
        if via == 'hex' and len(bits) % 4 == 0:
            return self.C(hex=format(int(bits, 2), f'0{len(bits) // 4}x'))
        return self.C(bin=bits)

    def _bin(self):
        st, v = call(lambda: self.s.bin)
        if st == 'ok' and isinstance(v, str):
            return v
        st, v = call(kernel.safe_bin, self.s)
        return v if st == 'ok' else '?'

    _enc_memo = {}

    def _memo(self, t):
        m = self._enc_memo
        v = m.get(t)
        if v is None:
            v = m[t] = kernel.jdump(t)
        return v

    def state(self, *t):
        self.rec.states.add(self._memo(t))

    def transition(self, *t):
        self.rec.transitions.add(self._memo(t))

    @staticmethod
    def _lb(n):
        return 0 if n == 0 else 1 if n < 8 else 2 if n < 64 else 3 if n < 65 else 4 if n < 256 else 5

    # ---------------------------------------------------------------------------------------------------
    # operand plumbing (event side -> python objects, and -> model bits)
    # ---------------------------------------------------------------------------------------------------
    def _obits(self, o):
        """(bits or None if the operand is not promotable, fires: a producer fault fires when it is consumed, is_self)"""
        if not isinstance(o, dict):
            return None, False, False
        f = o.get('f')
        if f == 'self':
            return self.M, False, True
        if f in BAD_FORMS:
            return None, False, False
        b = o.get('b', '')
        if not isinstance(b, str) or set(b) - {'0', '1'}:
            return None, False, False
        if self._mirror:
            b = b[::-1]
        if f == 'faulty':
            return b, o.get('k') is not None, False
        return b, False, False

    def _oform(self, o):
        """The form actually used (hex/oct/bytes fall back to bin when the length does not allow them)."""
        f = o.get('f')
        b = o.get('b', '')
        if f == 'hex' and (len(b) % 4 or not b):
            return 'bin'
        if f == 'oct' and (len(b) % 3 or not b):
            return 'bin'
        if f in BYTE_FORMS and len(b) % 8:
            return 'bin'
        if f not in GOOD_FORMS and f not in BAD_FORMS and f not in ('self', 'faulty'):
            return 'bin'
        return f

    def _oobj(self, o, made):
        """The python object handed to the library for operand o."""
        if not isinstance(o, dict):
            return None
        f = self._oform(o)
        b = o.get('b', '')
        if f == 'self':
            return self.s
        if f == 'int':
            return o.get('x', 3)
        if f == 'none':
            return None
        if f == 'float':
            return 1.5
        if f == 'badstr':
            return 'hello'
        if f == 'badbin':
            return '0b12'
        if not isinstance(b, str) or set(b) - {'0', '1'}:
            return None
        if f in OBJ_FORMS:
            return getattr(self.B, f)(bin=b) if b else getattr(self.B, f)()
        if f == 'bin':
            return '0b' + b if b else ''
        if f == 'hex':
            return '0x' + format(int(b, 2), f'0{len(b) // 4}x')
        if f == 'oct':
            return '0o' + format(int(b, 2), f'0{len(b) // 3}o')
        if f in BYTE_FORMS:
            raw = int(b, 2).to_bytes(len(b) // 8, 'big') if b else b''
            if f == 'bytesio':
                return io.BytesIO(raw)
            if f == 'bytesio_written':
                # filled by write() (as tofile() would leave it): positioned at its end, and its content is still the whole buffer
                bio = io.BytesIO()
                bio.write(raw)
                return bio
            return raw if f == 'bytes' else bytearray(raw) if f == 'bytearray' else memoryview(raw)
        bools = [c == '1' for c in b]
        if f == 'list':
            return bools
        if f == 'tuple':
            return tuple(bools)
        fi = FaultyIterable(bools, o.get('k') if f == 'faulty' else None)
        made.append(fi)
        via = o.get('via')
        if via == 'gen':
            return (v for v in fi)              # a genuine generator object over the producer
        if via == 'badbool' and f == 'faulty' and _isint(o.get('k')) and 0 <= o['k'] < len(bools):
            # a plain list whose k-th item cannot be evaluated as a bool
            class _Bad:
                def __bool__(self_):
                    fi.fired = True
                    raise InjectedProducerFault(f'item {o["k"]} has no truth value')
            return bools[:o['k']] + [_Bad()] + bools[o['k'] + 1:]
        if via == 'badbool':
            return (v for v in fi)
        return fi

    def _osrc(self, o):
        if not isinstance(o, dict):
            return 'None'
        f = self._oform(o)
        b = o.get('b', '')
        if f == 'self':
            return 's'
        if f in BAD_FORMS:
            return repr(self._oobj(o, []))
        if f in OBJ_FORMS:
            return f"{f}(bin='{b}')"
        if f in STR_FORMS:
            return repr(self._oobj(o, []))
        if f in BYTE_FORMS:
            raw = int(b, 2).to_bytes(len(b) // 8, 'big') if b else b''
            if f in ('bytesio', 'bytesio_written'):
                return f'io.BytesIO({raw!r})' if f == 'bytesio' else f'(lambda b: (b.write({raw!r}), b)[1])(io.BytesIO())'
            return repr(raw) if f == 'bytes' else f'{f}({raw!r})'
        bools = [int(c) for c in b]
        if f == 'list':
            return repr(bools)
        if f == 'tuple':
            return repr(tuple(bools))
        return f'F({bools!r}, {o.get("k") if f == "faulty" else None!r})'

    def _gate(self, *operands):
        """Reasons to raise that come from the operands alone: (classes or None, fault expected, any self)."""
        rz, fault, anyself = (), False, False
        for o in operands:
            b, fires, is_self = self._obits(o)
            anyself |= is_self
            if b is None:
                rz += ANY
            elif fires:
                rz += PF
                fault = True
        return (rz or None), fault, anyself

    # ---------------------------------------------------------------------------------------------------
    # the specification
    # ---------------------------------------------------------------------------------------------------
    _MIRROR_SWAP = {'ilshift': 'irshift', 'irshift': 'ilshift', 'rol': 'ror', 'ror': 'rol'}

    def _spec(self, ev):
        """msb0: the sequence-level specification.  lsb0 (a per-run knob): the same specification applied to the bit-reversed
        content and operands with the same position arguments, reversed back - the documented meaning of the operation
        under options.lsb0; shifts and rotations keep their direction relative to the most significant end."""
        if not self.lsb0:
            return self._spec_msb0(ev)
        op = ev.get('op')
        if op in ('insert', 'overwrite') and ev.get('pos') is None:
            return Exp(skip='current stream position as an input: msb0 runs only')
        if op == 'setslice' and ev.get('c') == -1 and isinstance(ev.get('v'), dict) and ('int' in ev['v'] or ev['v'].get('f') == 'int'):
            return Exp(skip='whole-value integer on a reversed slice: msb0 runs only')
        saved = self.M
        self.M = saved[::-1]
        self._mirror = True
        try:
            ev2 = dict(ev, op=self._MIRROR_SWAP[op]) if op in self._MIRROR_SWAP else ev
            e = self._spec_msb0(ev2)
        finally:
            self.M = saved
            self._mirror = False
        if e.skip:
            return e
        e.ok = [(m[::-1], r) for m, r in e.ok]
        e.rstate = tuple(m[::-1] for m in e.rstate)
        e.frame = None
        e.tag = ('lsb0' if e.tag in (None, '-') else e.tag + ',lsb0')
        return e

    def _spec_msb0(self, ev):
        fn = getattr(self, '_sp_' + str(ev.get('op')), None)
        if fn is None:
            return Exp(skip='unknown op')
        try:
            e = fn(ev)
        except (TypeError, KeyError, AttributeError, ValueError, OverflowError, MemoryError) as ex:  # malformed event (shrinking)
            return Exp(skip='malformed event: ' + type(ex).__name__)
        if e.skip:
            return e
        for newM, _ in e.ok:
            if len(newM) > INTERNAL_LIMIT:
                return Exp(skip='result too long')
        if e.rstate is None:
            e.rstate = (self.M,)
        elif isinstance(e.rstate, str):
            # set/invert over an iterable: the statement says the valid positions before the bad one MAY already have
            # been applied - so "exactly that prefix applied" and "nothing applied" are both in order after the raise
            e.rstate = (e.rstate,) if e.rstate == self.M else (e.rstate, self.M)
        if e.tag is None:
            e.tag = 'producer-fault' if e.fault else 'rejected' if not e.ok else '-'
        return e

    def _raise(self, rz, fault=False, tag=None, rstate=None):
        return Exp(ok=[], rz=tuple(rz), fault=fault, tag=tag, rstate=rstate)

    # -- append / prepend -------------------------------------------------------------------------------
    def _sp_append(self, ev, ret=NONE, left=False):
        M = self.M
        rz, fault, anyself = self._gate(ev.get('bs'))
        if rz:
            return self._raise(rz, fault)
        b = self._obits(ev['bs'])[0]
        new = b + M if left else M + b
        fr = (0, 0, True) if left else (len(M), len(M), True)
        return Exp(ok=[(new, ret)], frame=fr, tag='self-operand' if anyself else None)

    def _sp_iadd(self, ev):
        return self._sp_append(ev, ret=SELF)

    def _sp_prepend(self, ev):
        return self._sp_append(ev, left=True)

    # -- insert / overwrite -----------------------------------------------------------------------------
    def _pos_arg(self, ev):
        """(effective pos or None if invalid, classes if invalid, used_current_pos)"""
        pos = ev.get('pos')
        n = len(self.M)
        if pos is None:
            if self.cname == 'BitStream':
                st, cur = call(lambda: self.s.pos)
                if st != 'ok' or not _isint(cur) or not 0 <= cur <= n:
                    return 'skip', None, True
                return cur, None, True
            return None, ANY, False
        if not _isint(pos):
            return None, ANY, False
        p = pos + n if pos < 0 else pos
        if not 0 <= p <= n:
            return None, VE, False
        return p, None, False

    def _sp_insert(self, ev, over=False):
        M = self.M
        n = len(M)
        rz, fault, anyself = self._gate(ev.get('bs'))
        p, prz, _ = self._pos_arg(ev)
        if p == 'skip':
            return Exp(skip='stream pos is outside the value (C06 territory)')
        b = self._obits(ev.get('bs'))[0]
        if rz:
            return self._raise(rz + (prz or ()), fault)
        if p is None:
            if not b:
                # DESIGN 5.3: empty operand with an invalid pos - no-op or raise
                return Exp(ok=[(M, NONE)], rz=prz, tag='empty-operand,bad-pos')
            return self._raise(prz)
        if over:
            new = M[:p] + b + M[p + len(b):]
            tag = None
            if anyself:
                tag = 'self-operand,pos!=0' if (p != 0 and b) else 'self-operand'
            return Exp(ok=[(new, NONE)], frame=(p, min(p + len(b), n), p + len(b) > n), tag=tag)
        return Exp(ok=[(M[:p] + b + M[p:], NONE)], frame=(p, p, True), tag='self-operand' if anyself else None)

    def _sp_overwrite(self, ev):
        return self._sp_insert(ev, over=True)

    # -- del ----------------------------------------------------------------------------------------------
    def _sp_del(self, ev):
        M = self.M
        n = len(M)
        i = ev.get('i')
        if not _isint(i):
            return self._raise(ANY)
        p = i + n if i < 0 else i
        if not 0 <= p < n:
            return self._raise(IE)
        return Exp(ok=[(M[:p] + M[p + 1:], NONE)], frame=(p, p + 1, True))

    def _slice(self, ev):
        a, b, c = ev.get('a'), ev.get('b'), ev.get('c')
        for x in (a, b, c):
            if not (x is None or _isint(x)):
                raise TypeError('slice part')
        return a, b, c

    def _sp_delslice(self, ev):
        M = self.M
        a, b, c = self._slice(ev)
        if c == 0:
            return self._raise(ANY)
        L = list(M)
        sel = range(*slice(a, b, c).indices(len(M)))
        del L[a:b:c]
        fr = (min(sel), max(sel) + 1, True) if len(sel) else (0, 0, True)
        if c not in (None, 1):
            fr = (fr[0], fr[1], True) if len(sel) else None
        return Exp(ok=[(''.join(L), NONE)], frame=fr)

    # -- item / slice assignment ------------------------------------------------------------------------
    def _sp_setitem(self, ev):
        M = self.M
        n = len(M)
        i, v = ev.get('i'), ev.get('v')
        if i is None:
            return Exp(skip='None is not a documented key type')
        if not _isint(i):
            return self._raise(ANY)
        p = i + n if i < 0 else i
        bad_index = not 0 <= p < n
        x = _intval(v)
        if x is not None:
            bad_value = x not in (0, 1, -1)
            if bad_index or bad_value:
                return self._raise(IE if not bad_value else ANY)
            return Exp(ok=[(M[:p] + ('0' if x == 0 else '1') + M[p + 1:], NONE)], frame=(p, p + 1, False), tag='int')
        rz, fault, anyself = self._gate(v)
        if rz or bad_index:
            return self._raise((rz or ()) + (IE if bad_index else ()), fault)
        b = self._obits(v)[0]
        return Exp(ok=[(M[:p] + b + M[p + 1:], NONE)], frame=(p, p + 1, len(b) != 1),
                   tag='self-operand' if anyself else None)

    def _sp_setslice(self, ev):
        M = self.M
        n = len(M)
        a, b, c = self._slice(ev)
        v = ev.get('v')
        if c == 0:
            return self._raise(ANY + (self._gate(v)[0] or ()) if _intval(v) is None else ANY)
        sl = slice(a, b, c)
        sel = range(*sl.indices(n))
        k = len(sel)
        stepc = 'step=1' if c in (None, 1) else 'step=-1' if c == -1 else 'step>1' if c > 1 else 'step<-1'
        if k:
            fr = (min(sel), max(sel) + 1, c in (None, 1))
        elif c in (None, 1):
            fr = (min(max(sel.start, 0), n),) * 2 + (True,)
        else:
            fr = (0, 0, False)
        x = _intval(v)
        if x is not None:
            tag = 'int,' + stepc
            if c in (None, 1, -1):
                if c == -1 and len(M[a:b]) != k:
                    tag = 'int,step=-1,fwd-len-differs'
                if k == 0:
                    if x == 0:
                        # relaxation: a 0-bit field can hold 0 - no-op - or be refused like every other width overflow
                        return Exp(ok=[(M, NONE)], rz=ANY, tag=tag, frame=fr)
                    return self._raise(ANY, tag=tag if tag.endswith('differs') else None)
                if k > 4096:
                    return Exp(skip='slice too wide')
                if not (-(1 << (k - 1)) <= x < (1 << k)):
                    return self._raise(ANY, tag=tag if tag.endswith('differs') else None)
                bits = format(x & ((1 << k) - 1), f'0{k}b')
                if self._mirror:
                    bits = bits[::-1]       # an integer is a whole value: its encoding is the same in both modes
                L = list(M)
                L[sl] = list(bits)
                return Exp(ok=[(''.join(L), NONE)], frame=(fr[0], fr[1], False), tag=tag)
            if x not in (0, 1):
                return self._raise(ANY)
            L = list(M)
            for p in sel:
                L[p] = str(x)
            if c < -1 and k and sl.indices(n)[1] == -1:
                tag = 'int,step<-1,to-start'
            elif c < -1 and sl.indices(n)[0] == -1:
                tag = 'int,step<-1,from-before-start'
            return Exp(ok=[(''.join(L), NONE)], frame=fr, tag=tag)
        rz, fault, anyself = self._gate(v)
        if rz:
            return self._raise(rz, fault)
        bits = self._obits(v)[0]
        L = list(M)
        try:
            L[sl] = list(bits)
        except ValueError:
            return self._raise(ANY)
        tag = 'bs,' + stepc + (',self' if anyself else '')
        return Exp(ok=[(''.join(L), NONE)], frame=fr, tag=tag)

    # -- replace ----------------------------------------------------------------------------------------
    def _sp_replace(self, ev):
        M = self.M
        n = len(M)
        count = ev.get('count')
        if not (count is None or _isint(count)):
            raise TypeError('count')
        rz, fault, anyself = self._gate(ev.get('old'), ev.get('new'))
        tag = 'self-operand' if anyself else None
        rng = _norm_range(M, ev.get('start'), ev.get('end'))
        old = self._obits(ev.get('old'))[0]
        new = self._obits(ev.get('new'))[0]
        if count == 0:
            # DESIGN 5.3: returns 0 before validating anything - or validates first
            bad = bool(rz) or rng is None or not old
            return Exp(ok=[(M, 0)], rz=(ANY + PF) if bad else None, tag='count=0' if bad else tag, fault=False)
        reasons = rz or ()
        if old is not None and not old:
            reasons += VE
        if rng is None:
            reasons += VE
        if reasons:
            return self._raise(reasons, fault)
        a, b = rng
        ba = ev.get('ba')
        ba = self.ba if ba is None else bool(ba)
        lo = len(old)
        hits = []
        p = M.find(old, a)
        overlap = False
        while p != -1 and p + lo <= b:
            if ba and p % 8:
                p = M.find(old, p + 1)
                continue
            if hits and p < hits[-1] + lo:
                overlap = True
                p = M.find(old, p + 1)
                continue
            hits.append(p)
            if count is not None and count > 0 and len(hits) == count:
                break
            p = M.find(old, p + 1)
        out, last = [], 0
        for h in hits:
            out.append(M[last:h])
            out.append(new)
            last = h + lo
        out.append(M[last:])
        res = ''.join(out)
        e = Exp(ok=[(res, len(hits))], frame=(a, b, True), tag=tag)
        if count is not None and count < 0:
            # relaxation: a negative count is undocumented - "no limit" (like str.replace) or a refusal
            e.rz = ANY
            e.tag = 'count<0'
        e.fault = False
        # reach bookkeeping (read by apply through the Exp object's tag only; probes are recorded in apply)
        self._rep_info = (len(hits), overlap, ev.get('ba') is None and self.ba)
        return e

    # -- reverse / rotate -------------------------------------------------------------------------------
    def _sp_reverse(self, ev):
        M = self.M
        rng = _norm_range(M, ev.get('start'), ev.get('end'))
        if rng is None:
            return self._raise(VE)
        a, b = rng
        return Exp(ok=[(M[:a] + M[a:b][::-1] + M[b:], NONE)], frame=(a, b, False))

    def _sp_rol(self, ev, right=False):
        M = self.M
        n = len(M)
        bits = ev.get('bits')
        if not _isint(bits):
            return self._raise(ANY)
        reasons = ()
        if n == 0:
            reasons += ER
        if bits < 0:
            reasons += VE
        rng = _norm_range(M, ev.get('start'), ev.get('end'))
        if rng is None:
            reasons += VE
        if reasons:
            if n == 0 and bits >= 0 and rng is not None:
                return self._raise(ER)
            return self._raise(reasons)
        a, b = rng
        if a == b:
            # rotating an empty range: nothing to do - or a refusal; never an internal error
            return Exp(ok=[(M, NONE)], rz=ANY, tag='empty-range', frame=(a, b, False))
        seg = M[a:b]
        k = bits % len(seg)
        if right:
            k = (len(seg) - k) % len(seg)
        seg = seg[k:] + seg[:k]
        return Exp(ok=[(M[:a] + seg + M[b:], NONE)], frame=(a, b, False))

    def _sp_ror(self, ev):
        return self._sp_rol(ev, right=True)

    # -- set / invert -----------------------------------------------------------------------------------
    def _sp_set(self, ev, inv=False):
        M = self.M
        n = len(M)
        v = '1' if ev.get('value') else '0'
        pos = ev.get('pos') or {'t': 'none'}
        t = pos.get('t')

        def put(L, p):
            L[p] = ('1' if L[p] == '0' else '0') if inv else v

        if t == 'none':
            if inv:
                return Exp(ok=[(''.join('1' if c == '0' else '0' for c in M), NONE)], frame=(0, n, False))
            return Exp(ok=[(v * n, NONE)], frame=(0, n, False), tag='empty,pos=None' if n == 0 else None)
        if t == 'int':
            p = pos.get('p')
            if not _isint(p):
                return self._raise(ANY)
            if not -n <= p < n:
                return self._raise(IE)
            L = list(M)
            put(L, p)
            q = p % n
            return Exp(ok=[(''.join(L), NONE)], frame=(q, q + 1, False))
        tag = None
        if t == 'range':
            a, b, c = pos.get('a', 0), pos.get('b', 0), pos.get('c', 1) or 1
            if not (_isint(a) and _isint(b) and _isint(c)):
                raise TypeError('range')
            r = range(a, b, c)
            if len(r) > 5000:
                return Exp(skip='range too long')
            items = list(r)
            fail_at = None
            if not inv:
                if a < 0 or b < 0:
                    tag = 'range-neg-bound'
                elif any(not -n <= p < n for p in items):
                    tag = 'range-oob'
                else:
                    tag = 'range'
        else:
            items = pos.get('ps', [])
            if not isinstance(items, list) or len(items) > 5000:
                raise TypeError('positions')
            fail_at = pos.get('k') if t == 'faulty' else None
        L = list(M)
        applied = []
        for idx, p in enumerate(items):
            if fail_at is not None and idx == fail_at:
                return self._raise(PF, fault=True, rstate=''.join(L), tag=tag)
            if not _isint(p):
                return self._raise(ANY, rstate=''.join(L), tag=tag or 'bad-element')
            if not -n <= p < n:
                return self._raise(IE, rstate=''.join(L), tag=tag or 'bad-element')
            put(L, p)
            applied.append(p % n)
        if fail_at is not None:
            return self._raise(PF, fault=True, rstate=''.join(L), tag=tag)
        fr = (min(applied), max(applied) + 1, False) if applied else (0, 0, False)
        return Exp(ok=[(''.join(L), NONE)], frame=fr, tag=tag)

    def _sp_invert(self, ev):
        return self._sp_set(ev, inv=True)

    # -- byteswap ---------------------------------------------------------------------------------------
    def _sp_byteswap(self, ev):
        M = self.M
        fmt = ev.get('fmt') or {'t': 'none'}
        t = fmt.get('t')
        repeat = bool(ev.get('repeat', True))
        rng = _norm_range(M, ev.get('start'), ev.get('end'))
        reasons = () if rng is not None else VE
        fault = False
        sizes = None
        tag = None
        if t == 'none':
            sizes = [(rng[1] - rng[0]) // 8] if rng else []
        elif t == 'int':
            x = fmt.get('n')
            if not _isint(x):
                raise TypeError('fmt int')
            if x < 0:
                reasons += VE
            elif x == 0:
                sizes = [(rng[1] - rng[0]) // 8] if rng else []
            else:
                sizes = [x]
        elif t == 'str':
            sizes = _parse_fmt(fmt.get('s'))
            if sizes == 'huge':
                return Exp(skip='format count too large')
            if sizes is None:
                reasons += VE
        elif t == 'float':
            reasons += ANY
        elif t in ('list', 'tuple', 'faulty', 'iter', 'range'):
            items = list(range(fmt.get('a', 0), fmt.get('b', 0))) if t == 'range' else fmt.get('ns', [])
            if not isinstance(items, list) or len(items) > 64:
                raise TypeError('fmt items')
            fail_at = fmt.get('k') if t == 'faulty' else None
            bad = False
            for idx, x in enumerate(items):
                if fail_at is not None and idx == fail_at:
                    break
                if not _isint(x) or x < 0:
                    bad = True
                    break
            if bad:
                reasons += ANY
            elif fail_at is not None:
                reasons += PF
                fault = True
            else:
                sizes = list(items)
            if t == 'iter':
                tag = 'fmt-iterator'
        else:
            return self._raise(ANY)
        if reasons:
            return self._raise(reasons, fault)
        a, b = rng
        total = 8 * sum(sizes)
        if total == 0:
            return Exp(ok=[(M, 0)], frame=(a, b, False), tag=None)
        reps = (b - a) // total
        if not repeat:
            if a + total > b:
                tag = 'norepeat-past-end'
            reps = min(reps, 1)
        if reps * len(sizes) > 20000:
            return Exp(skip='too many swaps')
        return Exp(ok=[(_swap(M, a, sizes, reps), reps)], frame=(a, b, False), tag=tag)

    # -- in-place operators -----------------------------------------------------------------------------
    def _sp_ilshift(self, ev, right=False):
        M = self.M
        n = len(M)
        k = ev.get('n')
        if not _isint(k):
            return self._raise(ANY)
        if k < 0:
            return self._raise(VE)
        if n == 0:
            if k == 0:
                # relaxation: shifting nothing by nothing - no-op or the documented refusal of an empty bitstring
                return Exp(ok=[(M, SELF)], rz=ANY, tag='empty,n=0')
            return self._raise(ANY)
        k = min(k, n)
        new = ('0' * k + M[:n - k]) if right else (M[k:] + '0' * k)
        return Exp(ok=[(new, SELF)], frame=(0, n, False))

    def _sp_irshift(self, ev):
        return self._sp_ilshift(ev, right=True)

    def _sp_imul(self, ev):
        M = self.M
        k = ev.get('n')
        if not _isint(k):
            return self._raise(ANY)
        if k < 0:
            return self._raise(VE)
        if len(M) * k > INTERNAL_LIMIT or k > INTERNAL_LIMIT:
            return Exp(skip='result too long')
        return Exp(ok=[(M * k, SELF)], frame=(len(M), len(M), True) if k else None)

    def _sp_bitop(self, ev, fn):
        M = self.M
        rz, fault, anyself = self._gate(ev.get('bs'))
        b = self._obits(ev.get('bs'))[0]
        if rz:
            return self._raise(rz, fault)
        if len(b) != len(M):
            return self._raise(VE)
        new = ''.join(fn(x, y) for x, y in zip(M, b))
        return Exp(ok=[(new, SELF)], frame=(0, len(M), False), tag='self-operand' if anyself else None)

    def _sp_iand(self, ev):
        return self._sp_bitop(ev, lambda x, y: '1' if x == '1' and y == '1' else '0')

    def _sp_ior(self, ev):
        return self._sp_bitop(ev, lambda x, y: '1' if x == '1' or y == '1' else '0')

    def _sp_ixor(self, ev):
        return self._sp_bitop(ev, lambda x, y: '1' if x != y else '0')

    def _sp_clear(self, ev):
        return Exp(ok=[('', NONE)])

    # ---------------------------------------------------------------------------------------------------
    # executing one call against the real object
    # ---------------------------------------------------------------------------------------------------
    def _thunk(self, ev, made):
        """A zero-argument callable performing the event on self.s (arguments are built here, outside the call)."""
        s = self.s
        op = ev['op']
        O = lambda key: self._oobj(ev.get(key), made)  # noqa: E731
        if op == 'append':
            x = O('bs')
            return lambda: s.append(x)
        if op == 'iadd':
            x = O('bs')
            return lambda: operator.iadd(s, x)
        if op == 'prepend':
            x = O('bs')
            return lambda: s.prepend(x)
        if op in ('insert', 'overwrite'):
            x = O('bs')
            pos = ev.get('pos')
            m = getattr(s, op)
            if pos is None and self.cname == 'BitStream':
                return lambda: m(x)
            return lambda: m(x, pos)
        if op == 'del':
            i = ev.get('i')
            return lambda: operator.delitem(s, i)
        if op == 'delslice':
            sl = slice(ev.get('a'), ev.get('b'), ev.get('c'))
            return lambda: operator.delitem(s, sl)
        if op in ('setitem', 'setslice'):
            key = ev.get('i') if op == 'setitem' else slice(ev.get('a'), ev.get('b'), ev.get('c'))
            v = ev.get('v')
            x = _intval(v)
            if x is None:
                x = self._oobj(v, made)
            return lambda: operator.setitem(s, key, x)
        if op == 'replace':
            old, new = O('old'), O('new')
            kw = {}
            for k_, name in (('start', 'start'), ('end', 'end'), ('count', 'count'), ('ba', 'bytealigned')):
                if ev.get(k_) is not None:
                    kw[name] = ev[k_]
            return lambda: s.replace(old, new, **kw)
        if op == 'reverse':
            a, b = ev.get('start'), ev.get('end')
            return lambda: s.reverse(a, b)
        if op in ('rol', 'ror'):
            m = getattr(s, op)
            n, a, b = ev.get('bits'), ev.get('start'), ev.get('end')
            return lambda: m(n, a, b)
        if op in ('set', 'invert'):
            pos = ev.get('pos') or {'t': 'none'}
            t = pos.get('t')
            if t == 'none':
                p = None
            elif t == 'int':
                p = pos.get('p')
            elif t == 'range':
                p = range(pos.get('a', 0), pos.get('b', 0), pos.get('c', 1) or 1)
            elif t == 'tuple':
                p = tuple(pos.get('ps', []))
            elif t == 'faulty':
                p = FaultyIterable(pos.get('ps', []), pos.get('k'))
                made.append(p)
            elif t == 'iterable':
                p = FaultyIterable(pos.get('ps', []), None)
            elif t == 'oneshot':
                p = iter(list(pos.get('ps', [])))            # positions that can be walked once only (iter(), map(), reversed() ...)
            elif t == 'oneshot_gen':
                p = (x for x in list(pos.get('ps', [])))
            else:
                p = list(pos.get('ps', []))
            if op == 'set':
                val = ev.get('value')
                return (lambda: s.set(val)) if t == 'none' else (lambda: s.set(val, p))
            return (lambda: s.invert()) if t == 'none' else (lambda: s.invert(p))
        if op == 'byteswap':
            fmt = ev.get('fmt') or {'t': 'none'}
            t = fmt.get('t')
            if t == 'none':
                f = None
            elif t == 'int':
                f = fmt.get('n')
            elif t == 'str':
                f = fmt.get('s')
            elif t == 'tuple':
                f = tuple(fmt.get('ns', []))
            elif t == 'faulty':
                f = FaultyIterable(fmt.get('ns', []), fmt.get('k'))
                made.append(f)
            elif t == 'iter':
                f = iter(list(fmt.get('ns', [])))
            elif t == 'range':
                f = range(fmt.get('a', 0), fmt.get('b', 0))
            elif t == 'float':
                f = float(fmt.get('x', 1.5)) if isinstance(fmt.get('x', 1.5), (int, float)) else 1.5
            else:
                f = list(fmt.get('ns', []))
            a, b, rep = ev.get('start'), ev.get('end'), bool(ev.get('repeat', True))
            return lambda: s.byteswap(f, a, b, rep)
        if op in ('ilshift', 'irshift', 'imul'):
            n = ev.get('n')
            f = getattr(operator, op)
            return lambda: f(s, n)
        if op in ('iand', 'ior', 'ixor'):
            x = O('bs')
            f = getattr(operator, op)
            return lambda: f(s, x)
        if op == 'clear':
            return lambda: s.clear()
        return None

    # ---------------------------------------------------------------------------------------------------
    def apply(self, ev):
        k = ev.get('k')
        if k == 'cache_clear':
            return self._ev_cache(ev)
        if k == 'option':
            return self._ev_option(ev)
        if k == 'observe':
            return self._ev_observe(ev)
        if k == 'lazy':
            return self._ev_lazy(ev)
        if k == 'assign':
            return self._ev_assign(ev)
        if k in ('op', 'reject', 'pfault') and isinstance(ev.get('op'), str):
            return self._ev_op(ev)
        return {'skip': str(k)}, []

    def _observe(self, x, ev):
        B = self.B
        w = ev.get('what')
        bits = ''.join(c for c in str(ev.get('bits', '')) if c in '01')
        pat = ('0b' + bits) if bits else ''
        a, b, ba = ev.get('a'), ev.get('b'), ev.get('ba')
        a = a if (a is None or _isint(a)) else None
        b = b if (b is None or _isint(b)) else None
        ba = ba if ba in (None, True, False) else None
        if w == 'find':
            return x.find(pat, a, b, ba)
        if w == 'rfind':
            return x.rfind(pat, a, b, ba)
        if w == 'findall':
            return list(x.findall(pat, a, b, None, ba))[:50]
        if w == 'count':
            return [x.count(1), x.count(0)]
        if w == 'tobytes':
            return x.tobytes()
        if w == 'interp':
            return [x.hex if len(x) % 4 == 0 else None, x.uint if len(x) else None, x.int if len(x) else None, x.oct if len(x) % 3 == 0 else None]
        if w == 'len':
            return [len(x), bool(x), x.len]
        if w == 'eq':
            other = B.Bits(bin=self.M) if self.M else B.Bits()
            return [x == other, other == x, x != other, x == (other + '0b1')]
        if w == 'getitem':
            i = ev.get('i', 0)
            return x[i if _isint(i) else 0]
        if w == 'slice':
            return x[a:b].bin
        if w == 'startswith':
            return [x.startswith(pat), x.endswith(pat), pat in x if pat else None]
        if w == 'iter':
            return [bool(v) for _, v in zip(range(300), x)]
        if w == 'all_any':
            return [x.all(1), x.any(1), x.all(0), x.any(0)]
        if w == 'copy':
            return [x.copy().bin, (x + '0b1').bin[-9:], (~x).bin[:16] if len(x) else None, (x * 2).bin[:40]]
        if w == 'cut':
            return [c.bin for c in x.cut(8)][:20]
        if w == 'str':
            return str(x)       # (repr of a stream names its pos, which C03 leaves to C06)
        if w == 'unpack':
            return x.unpack('bin')
        return None

    def _ev_observe(self, ev):
        self.probe('observe')
        fresh = self._build(self.M)
        st1, v1 = call(self._observe, self.s, ev)
        st2, v2 = call(self._observe, fresh, ev)
        o1 = kernel.canon(v1) if st1 == 'ok' else {'exc': type(v1).__name__}
        o2 = kernel.canon(v2) if st2 == 'ok' else {'exc': type(v2).__name__}
        incs = []
        if o1 != o2:
            incs.append(self.inc(f'observe:{ev.get("what")}|{"lsb0" if self.lsb0 else "-"}|differs-from-a-new-object-of-the-same-bits', cls=self.cname, content=self.M[:200],
                                 mutated_object=kernel.jdump(o1)[:300], new_object=kernel.jdump(o2)[:300], event=ev))
            self.s = self._build(self.M)
        got = self._bin()
        if got != self.M:
            incs.append(self.inc(f'observe:{ev.get("what")}|-|observer-changed-the-content', want=self.M[:200], got=got[:200]))
            self.s = self._build(self.M)
        return {'same': o1 == o2}, incs

    def _ev_lazy(self, ev):
        """A generator the library hands out over the subject (findall / cut / split / iteration) is made, stepped or dropped between
        two mutations.  Being suspended it holds nothing of the subject: the mutators that follow behave as if it were not there."""
        what = ev.get('what')
        slot = int(ev.get('slot', 0)) % 3 if isinstance(ev.get('slot', 0), int) else 0
        gens = self.gens
        self.probe('lazy:' + str(what))
        if what == 'make':
            bits = ''.join(c for c in str(ev.get('bits', '1')) if c in '01') or '1'
            kind = ev.get('kind')
            ba = ev.get('ba') if ev.get('ba') in (None, True, False) else None
            st, gobj = call(lambda: self.s.findall('0b' + bits, bytealigned=ba) if kind == 'findall' else self.s.cut(max(len(bits), 1)) if kind == 'cut'
                            else self.s.split('0b' + bits, bytealigned=ba) if kind == 'split' else iter(self.s))
            if st == 'ok':
                gens[slot] = gobj
        elif what == 'step' and slot in gens:
            st, _ = call(next, gens[slot])
            if st != 'ok':
                gens.pop(slot, None)
        elif what == 'close' and slot in gens:
            call(getattr(gens.pop(slot), 'close', lambda: None))
        got = self._bin()
        incs = []
        if got != self.M:
            incs.append(self.inc(f'lazy:{what}|-|content-mismatch', want=self.M[:200], got=got[:200]))
            self.s = self._build(self.M)
            self.gens = {}
        return {'live': len(gens)}, incs

    def _ev_assign(self, ev):
        """The whole content is replaced through a property (s.bytes = ..., s.hex = ..., s.bin = ..., s.uint = ...): not one of the
        listed mutators, but where their subject often comes from - the mutators that follow must find an ordinary, writable value."""
        via = ev.get('via')
        bits = ''.join(c for c in str(ev.get('bits', '')) if c in '01')
        reps = ev.get('reps', 1) if isinstance(ev.get('reps', 1), int) and 1 <= ev.get('reps', 1) <= 6000 else 1
        bits = bits * reps
        if via == 'bytes' and len(bits) % 8 == 0:
            st, r = call(setattr, self.s, 'bytes', int(bits, 2).to_bytes(len(bits) // 8, 'big') if bits else b'')
        elif via == 'hex' and len(bits) % 4 == 0 and bits:
            st, r = call(setattr, self.s, 'hex', format(int(bits, 2), f'0{len(bits) // 4}x'))
        elif via == 'uint' and bits and len(self.M) >= 1 and len(bits) <= len(self.M):
            bits = bits.rjust(len(self.M), '0')
            st, r = call(setattr, self.s, 'uint', int(bits, 2))
        else:
            if not bits:
                return {'skip': 'empty'}, []
            st, r = call(setattr, self.s, 'bin', bits)
        self.probe('assign:' + str(via))
        incs = []
        got = self._bin()
        if st != 'ok' or got != bits:
            incs.append(self.inc(f'assign:{via}|-|' + ('raised:' + type(r).__name__ if st != 'ok' else 'content-mismatch'), n=len(bits)))
            self.s = self._build(bits)
        self.M = bits
        self.gens = {}
        return {'st': st, 'n': len(bits)}, incs

    def _ev_cache(self, ev):
        self.R.clear_caches()
        self.fault('cache_clear')
        self.probe('cache_clear')
        got = self._bin()
        incs = []
        if got != self.M:
            incs.append(self.inc('cache_clear|-|content-mismatch', want=self.M, got=got))
            self.s = self._build(self.M)
        return {'bin': got}, incs

    def _ev_option(self, ev):
        v = bool(ev.get('value'))
        self.B.options.bytealigned = v
        self.ba = v
        self.fault('option_bytealigned')
        got = self._bin()
        incs = []
        if got != self.M:
            incs.append(self.inc('option|-|content-mismatch', want=self.M, got=got))
            self.s = self._build(self.M)
        self.state(self.cname, self._lb(len(self.M)), self.ba)
        return {'bin': got, 'ba': v}, incs

    def _ev_op(self, ev):
        op = ev['op']
        last = self._last
        self._last = None
        if last is not None and last[0] is ev and last[3] is self.s and last[4] == self.M:
            # gen computed the specification for this very event in this very state a moment ago
            e, self._rep_info = last[1], last[2]
        else:
            self._rep_info = None
            e = self._spec(ev)
        if e.skip:
            return {'skip': e.skip}, []
        made = []
        try:
            thunk = self._thunk(ev, made)
        except (TypeError, KeyError, AttributeError, ValueError, OverflowError) as ex:
            return {'skip': 'malformed event: ' + type(ex).__name__}, []
        if thunk is None:
            return {'skip': 'unknown op'}, []
        M = self.M
        pre = M
        s = self.s
        st, val = call(thunk)
        post = self._bin()
        fired = any(f.fired for f in made)
        name = OP_NAMES.get(op, op)
        disc = None
        detail = {}
        newM = None
        if st == 'exc' and isinstance(val, InjectedProducerFault) and fired and not e.fault and e.rz is not None:
            # The model expected the call to be rejected because of an item that precedes the point where the producer
            # dies; the library may equally consume the whole producer before looking at any item.  The injected fault
            # propagating is then the clean outcome - provided nothing changed.
            cls = type(val).__name__
            if post not in e.rstate:
                disc = 'not-atomic'
            else:
                newM = post
            obs_ret = None
        elif st == 'exc':
            cls = type(val).__name__
            if e.rz is None:
                disc = 'raised:' + cls
            elif not _exc_matches(val, e.rz):
                disc = ('wrong-exception:' if _exc_matches(val, ANY) else 'raised:') + cls
            elif isinstance(val, InjectedProducerFault) and not fired:
                disc = 'raised:' + cls
            elif post not in e.rstate:
                disc = 'not-atomic'
            if disc is None:
                newM = post
            obs_ret = None
        else:
            ret = SELF if (val is s and val is not None) else NONE if val is None else val if _isint(val) else 'other'
            obs_ret = ret
            for cand, cret in e.ok:
                if cand == post and cret == ret:
                    newM = cand
                    break
            if newM is None:
                if not e.ok:
                    disc = 'fault-swallowed' if (e.fault and fired) else 'should-raise'
                else:
                    disc = self._classify_ok(e, pre, post, ret)
        # the model moves to the specified state; the real object follows it if it went elsewhere
        if newM is None:
            newM = e.ok[0][0] if e.ok else e.rstate[0]
        incs = []
        if disc is not None:
            detail = {'cls': self.cname, 'call': self._src(ev), 'before': pre, 'after': post,
                      'outcome': ('raised ' + type(val).__name__ + ': ' + str(val)[:120]) if st == 'exc' else 'returned ' + repr(obs_ret),
                      'spec': self._spec_text(e), 'bytealigned_option': self.ba}
            incs.append(self.inc(f'{name}|{e.tag}|{disc}', **detail))
        self._reach(ev, e, st, val, fired, pre, newM, disc)
        self.M = newM
        if post != newM or disc is not None:
            self.s = self._build(newM)
            if post != newM:
                self.probe('resync')
        return {'st': st, 'x': type(val).__name__ if st == 'exc' else None, 'ret': obs_ret, 'bin': post}, incs

    def _classify_ok(self, e, pre, post, ret):
        fr = e.frame
        if fr is not None:
            a, b, lenchg = fr
            if not lenchg and len(post) != len(pre):
                return 'length-changed'
            tail = len(pre) - b
            if post[:a] != pre[:a] or (tail and post[len(post) - tail:] != pre[b:]) or len(post) < a + tail:
                return 'frame-violated'
        if all(post != cand for cand, _ in e.ok):
            return 'content-mismatch'
        want = e.ok[0][1]
        if want == SELF:
            return 'not-self'
        return 'wrong-return'

    def _spec_text(self, e):
        out = []
        for cand, ret in e.ok[:2]:
            out.append(f'content {cand} returning {ret}')
        if e.rz is not None:
            out.append('raise one of ' + '/'.join(sorted(set(e.rz))) + ' leaving ' + ' or '.join(e.rstate))
        return ' OR '.join(out)

    def _reach(self, ev, e, st, val, fired, pre, newM, disc):
        op = ev['op']
        n0, n1 = len(pre), len(newM)
        outcome = 'bad' if disc else ('raise' if st == 'exc' else 'ok')
        self.transition(op, outcome, self._lb(n0), self._lb(n1))
        self.state(self.cname, self._lb(n1), self.ba)
        if (n0 < 64) != (n1 < 64) and n0 and n1:
            self.probe('len:crosses-64')
        if disc:
            return
        if st == 'exc':
            if fired:
                self.fault('producer_fault')
                self.probe('pfault:prefix-applied' if (op in ('set', 'invert') and newM != pre) else 'pfault:unchanged')
            else:
                self.fault('rejected_call')
                self.probe('reject:state-unchanged' if newM == pre else 'reject:prefix-applied')
            return
        for key in ('bs', 'old', 'new', 'v'):
            o = ev.get(key)
            if isinstance(o, dict) and o.get('f') == 'self':
                self.probe('operand:self')
        if op == 'overwrite' and n1 > n0:
            self.probe('overwrite:extends')
        elif op == 'insert' and _isint(ev.get('pos')) and ev['pos'] < 0:
            self.probe('insert:from-end')
        elif op == 'replace' and self._rep_info:
            hits, overlap, by_option = self._rep_info
            if hits > 1:
                self.probe('replace:multi')
            if overlap:
                self.probe('replace:overlap-skipped')
            if by_option and hits:
                self.probe('option:bytealigned-decided-replace')
        elif op == 'byteswap' and e.ok and _isint(e.ok[0][1]):
            if e.ok[0][1] > 1:
                self.probe('byteswap:repeats>1')
            if (ev.get('fmt') or {}).get('t') == 'str' and e.ok[0][1] >= 1:
                self.probe('byteswap:struct-string')
        elif op == 'setslice':
            v = ev.get('v')
            c = ev.get('c')
            if _intval(v) is not None and c in (None, 1, -1):
                k = len(range(*slice(ev.get('a'), ev.get('b'), c).indices(n0)))
                if k and _intval(v) in ((1 << k) - 1, -(1 << (k - 1))):
                    self.probe('setslice:int-limit')
            if _isint(c) and c < 0 and newM != pre:
                self.probe('setslice:negative-step')
        elif op in ('ilshift', 'irshift') and _isint(ev.get('n')) and ev['n'] > n0 > 0:
            self.probe('shift:beyond-len')
        elif op in ('rol', 'ror') and e.frame and (e.frame[0] > 0 or e.frame[1] < n0) and newM != pre:
            self.probe('rotate:subrange')

    # ---------------------------------------------------------------------------------------------------
    # source rendering (incident detail and the harness-free script)
    # ---------------------------------------------------------------------------------------------------
    def _src(self, ev):
        try:
            return self._src_inner(ev)
        except Exception:  # noqa - rendering must never break a run
            return kernel.jdump(ev)

    def _src_inner(self, ev):
        op = ev.get('op')
        k = ev.get('k')
        if k == 'cache_clear':
            return '# (every lru_cache of the package cleared here)'
        if k == 'option':
            return f'bitstring.options.bytealigned = {bool(ev.get("value"))}'
        S = self._osrc

        def sl():
            parts = ['' if ev.get(x) is None else str(ev.get(x)) for x in ('a', 'b')]
            txt = ':'.join(parts)
            return txt + (':' + str(ev['c']) if ev.get('c') is not None else '')

        if op == 'append':
            return f's.append({S(ev.get("bs"))})'
        if op == 'iadd':
            return f's += {S(ev.get("bs"))}'
        if op == 'prepend':
            return f's.prepend({S(ev.get("bs"))})'
        if op in ('insert', 'overwrite'):
            if ev.get('pos') is None and self.cname == 'BitStream':
                return f's.{op}({S(ev.get("bs"))})'
            return f's.{op}({S(ev.get("bs"))}, {ev.get("pos")})'
        if op == 'del':
            return f'del s[{ev.get("i")}]'
        if op == 'delslice':
            return f'del s[{sl()}]'
        if op in ('setitem', 'setslice'):
            v = ev.get('v')
            vs = str(_intval(v)) if _intval(v) is not None else S(v)
            return f's[{ev.get("i") if op == "setitem" else sl()}] = {vs}'
        if op == 'replace':
            extra = ''.join(f', {name}={ev[k_]}' for k_, name in
                            (('start', 'start'), ('end', 'end'), ('count', 'count'), ('ba', 'bytealigned')) if ev.get(k_) is not None)
            return f's.replace({S(ev.get("old"))}, {S(ev.get("new"))}{extra})'
        if op == 'reverse':
            return f's.reverse({ev.get("start")}, {ev.get("end")})'
        if op in ('rol', 'ror'):
            return f's.{op}({ev.get("bits")}, {ev.get("start")}, {ev.get("end")})'
        if op in ('set', 'invert'):
            pos = ev.get('pos') or {'t': 'none'}
            t = pos.get('t')
            ps = pos.get('ps', [])
            p = {'none': None, 'int': str(pos.get('p')),
                 'range': f'range({pos.get("a", 0)}, {pos.get("b", 0)}, {pos.get("c", 1) or 1})',
                 'tuple': repr(tuple(ps)), 'faulty': f'F({ps!r}, {pos.get("k")!r})', 'iterable': f'F({ps!r}, None)', 'oneshot': f'iter({ps!r})', 'oneshot_gen': f'(x for x in {ps!r})'}.get(t, repr(ps))
            first = repr(ev.get('value')) if op == 'set' else None
            args = ', '.join(x for x in (first, p) if x is not None)
            return f's.{op}({args})'
        if op == 'byteswap':
            fmt = ev.get('fmt') or {'t': 'none'}
            t = fmt.get('t')
            ns = fmt.get('ns', [])
            f = {'none': 'None', 'int': str(fmt.get('n')), 'str': repr(fmt.get('s')), 'tuple': repr(tuple(ns)),
                 'faulty': f'F({ns!r}, {fmt.get("k")!r})', 'iter': f'iter({ns!r})', 'float': repr(float(fmt.get('x', 1.5))) if isinstance(fmt.get('x', 1.5), (int, float)) else '1.5',
                 'range': f'range({fmt.get("a", 0)}, {fmt.get("b", 0)})'}.get(t, repr(ns))
            return f's.byteswap({f}, {ev.get("start")}, {ev.get("end")}, repeat={bool(ev.get("repeat", True))})'
        if op in ('ilshift', 'irshift', 'imul'):
            return f's {OP_NAMES[op]} {ev.get("n")}'
        if op in ('iand', 'ior', 'ixor'):
            return f's {OP_NAMES[op]} {S(ev.get("bs"))}'
        if op == 'clear':
            return 's.clear()'
        return kernel.jdump(ev)

    def script(self, events):
        """Harness-free reproduction of an event list (python source)."""
        if not events or events[0].get('k') != 'init':
            return None
        cfg = events[0]['cfg']
        self.cname = cfg.get('cls', 'BitArray')
        self.M = ''
        lines = ['import sys; sys.path.insert(0, "/repo")', 'import bitstring; from bitstring import *']
        body = []
        for ev in events[1:]:
            if ev.get('k') in ('op', 'reject', 'pfault', 'option', 'cache_clear'):
                body.append(self._src(ev))
        if any('F(' in b for b in body):
            lines += ['class F:  # a producer that dies at element k',
                      '    def __init__(self, items, k): self.items, self.k = items, k',
                      '    def __iter__(self):',
                      '        for i, x in enumerate(self.items):',
                      '            if i == self.k: raise RuntimeError("producer died")',
                      '            yield x',
                      '        if self.k is not None and self.k >= len(self.items): raise RuntimeError("producer died")']
        if cfg.get('ba0'):
            lines.append('bitstring.options.bytealigned = True')
        lines.append(f"s = {self.cname}(bin='{cfg.get('bits', '')}')")
        for b in body[:-1]:
            lines.append(b)
        if body:
            lines.append("print('before:', s.bin)")
            lines.append(body[-1] if (' = ' in body[-1] or body[-1].startswith(('del', '#', 's +=', 's <<', 's >>', 's *', 's &', 's |', 's ^')))
                         else f'print("returned:", {body[-1]})')
            lines.append("print('after: ', s.bin)")
        return '\n'.join(lines)

    # ---------------------------------------------------------------------------------------------------
    # generation
    # ---------------------------------------------------------------------------------------------------
    def gen(self, g):
        cfg = self.cfg
        r = g.r.random()
        if r < cfg['p_cache']:
            return {'k': 'cache_clear'}
        if r < cfg['p_cache'] + cfg['p_opt']:
            return {'k': 'option', 'name': 'bytealigned', 'value': g.chance(0.5)}
        n = len(self.M)
        if cfg['fault'] and r > 0.93:
            if r > 0.985:
                # (one run in a while on a value of a few KiB handed over as one bytes object)
                big = g.chance(0.15)
                return {'k': 'assign', 'via': g.pick(['bytes', 'bytes', 'hex', 'bin', 'uint']), 'bits': g.bits(8 * g.int(1, 6)), 'reps': g.pick([683, 1024, 1366]) if big else 1}
            return {'k': 'lazy', 'what': g.pick(['make', 'make', 'step', 'step', 'step', 'close']), 'kind': g.pick(['findall', 'findall', 'cut', 'split', 'iter']),
                    'bits': (self.M[g.int(0, max(n - 8, 0)):][:8 * g.int(1, 2)] if (n >= 8 and g.chance(0.7)) else g.bits(g.pick([1, 3, 8, 16]))) or '1', 'ba': g.pick([None, True, True, False]),
                    'slot': g.int(0, 2)}
        if r < cfg['p_cache'] + cfg['p_opt'] + 0.12:
            # an observer on the mutated object and on a brand-new object of the same bits: the object holds exactly that
            # sequence for every reader, not only for .bin (nothing derived from an earlier content may survive a mutation)
            M = self.M
            ln = g.pick([1, 2, 3, 8, 8, 16])
            p0 = g.int(0, max(n - ln, 0))
            return {'k': 'observe', 'what': g.pick(OBSERVERS), 'bits': M[p0:p0 + ln] if (n and g.chance(0.7)) else g.bits(ln), 'a': g.pick([None, None, 0, g.int(0, n)]),
                    'b': g.pick([None, None, n, g.int(0, n)]), 'ba': g.pick([None, None, True, False]), 'i': g.int(-n - 1, n)}
        for _ in range(24):
            if n > cfg['maxlen'] and g.chance(0.7):
                op = g.pick(SHRINKERS)
            else:
                op = g.pick(cfg['ops'])
            ev = getattr(self, '_g_' + op)(g, n)
            ev['k'] = 'op'
            ev['op'] = op
            self._rep_info = None
            e = self._spec(ev)
            if e.skip:
                if e.skip.startswith('malformed'):
                    raise AssertionError(f'HARNESS: generator produced a malformed event {ev}: {e.skip}')
                continue
            if e.tag in AVOID_TAGS and (cfg['avoid'] or g.chance(0.7)):
                # never in an avoidance run; thinned elsewhere so that known trigger patterns do not crowd out the rest
                continue
            if e.ok and max(len(c) for c, _ in e.ok) > 4 * cfg['maxlen'] + 64:
                continue
            if not cfg['fault'] and (not e.ok or e.fault):
                continue
            if e.fault:
                ev['k'] = 'pfault'
            elif not e.ok:
                ev['k'] = 'reject'
            self._last = (ev, e, self._rep_info, self.s, self.M)
            return ev
        return {'k': 'option', 'name': 'bytealigned', 'value': self.ba}

    # -- argument generators ----------------------------------------------------------------------------
    def _operand(self, g, want=None, maxlen=20, allow_self=True):
        cfg = self.cfg
        r = g.r.random()
        if allow_self and r < cfg['p_self']:
            return {'f': 'self'}
        r = g.r.random()
        if r < cfg['p_bad']:
            f = g.pick(BAD_FORMS)
            return {'f': 'int', 'x': g.pick([0, 1, 3, -1, 8])} if f == 'int' else {'f': f}
        L = want if (want is not None and g.chance(0.85)) else g.length(maxlen)
        f = g.pick(GOOD_FORMS)
        if f in BYTE_FORMS and want is None and g.chance(0.7):
            L = 8 * g.int(0, 3)
        elif f == 'hex' and want is None and g.chance(0.7):
            L = 4 * g.int(1, 5)
        bits = g.bits(L)
        if r < cfg['p_bad'] + cfg['p_pf']:
            return {'f': 'faulty', 'b': bits, 'k': g.pick([0, L // 2, max(L - 1, 0), L]), 'via': g.pick(['obj', 'gen', 'gen', 'badbool'])}
        if f == 'iterable' and g.chance(0.5):
            return {'f': f, 'b': bits, 'via': 'gen'}
        return {'f': f, 'b': bits}

    def _enc(self, g, p, n, is_start):
        r = g.r.random()
        if r < 0.2 and p < n:
            return p - n
        if r < 0.45 and ((is_start and p == 0) or (not is_start and p == n)):
            return None
        return p

    def _range(self, g, n, align=False):
        r = g.r.random()
        if r < 0.12:
            return None, None
        if r > 1 - self.cfg['p_wild'] * 0.6:
            return g.opt_pos(n), g.opt_pos(n)
        a = g.int(0, n)
        b = g.int(a, n)
        if align:
            a -= a % 8
            b = a + ((b - a) // 8) * 8 if g.chance(0.8) else b
        if g.chance(0.15):
            b = a
        return self._enc(g, a, n, True), self._enc(g, b, n, False)

    def _index(self, g, n):
        """An index for a single element: mostly valid."""
        if n and not g.chance(self.cfg['p_wild'] * 0.5):
            p = g.int(0, n - 1)
            return p - n if g.chance(0.3) else p
        return g.pos(n)

    def _ins_pos(self, g, n):
        if not g.chance(self.cfg['p_wild'] * 0.5):
            p = g.int(0, n)
            if g.chance(0.3):
                p = g.pick([0, n, max(n - 1, 0)])
            return p - n if (p < n and g.chance(0.25)) else p
        return g.pos(n)

    def _g_append(self, g, n):
        return {'bs': self._operand(g)}

    _g_iadd = _g_append
    _g_prepend = _g_append

    def _g_insert(self, g, n):
        pos = self._ins_pos(g, n)
        if g.chance(0.04):
            pos = None
        return {'bs': self._operand(g, maxlen=16), 'pos': pos}

    def _g_overwrite(self, g, n):
        ev = self._g_insert(g, n)
        return ev

    def _g_del(self, g, n):
        i = self._index(g, n)
        if g.chance(0.01):
            i = None
        return {'i': i}

    def _slice_args(self, g, n):
        c = g.step()
        r = g.r.random()
        if r < 0.55:
            a, b = g.int(0, n), g.int(0, n)
            if (c or 1) > 0 and a > b and g.chance(0.8):
                a, b = b, a
            if (c or 1) < 0 and a < b and g.chance(0.8):
                a, b = b, a
            a = None if g.chance(0.15) else (a - n if (a < n and g.chance(0.2)) else a)
            b = None if g.chance(0.15) else (b - n if (b < n and g.chance(0.2)) else b)
        else:
            a, b = g.opt_pos(n), g.opt_pos(n)
        if g.chance(0.01):
            c = 0
        return a, b, c

    def _g_delslice(self, g, n):
        a, b, c = self._slice_args(g, n)
        return {'a': a, 'b': b, 'c': c}

    def _int_for(self, g, k):
        if k <= 0:
            return g.pick([0, 0, 1, -1])
        k = min(k, 300)
        return g.pick([0, 1, -1, (1 << k) - 1, 1 << k, -(1 << (k - 1)), -(1 << (k - 1)) - 1,
                       g.r.getrandbits(k), -g.r.getrandbits(max(k - 1, 1)), 2, 5])

    def _g_setitem(self, g, n):
        i = self._index(g, n)
        # (None is not a documented key type - Union[slice, int] - and is not generated; a replayed None is skipped)
        if g.chance(0.45):
            v = {'int': g.pick([0, 1, 1, 0, -1, 2, -2, True, False])}
            if isinstance(v['int'], bool):
                v['int'] = int(v['int'])
        else:
            v = self._operand(g, want=1, maxlen=6)
        return {'i': i, 'v': v}

    def _g_setslice(self, g, n):
        a, b, c = self._slice_args(g, n)
        k = len(range(*slice(a, b, c).indices(n))) if c != 0 else 0
        if g.chance(0.4):
            if c in (None, 1, -1, 0):
                v = {'int': self._int_for(g, k)}
            else:
                v = {'int': g.pick([0, 1, 1, 0, 2, -1])}
        else:
            v = self._operand(g, want=k, maxlen=16)
        return {'a': a, 'b': b, 'c': c, 'v': v}

    def _g_replace(self, g, n):
        M = self.M
        r = g.r.random()
        if n and r < 0.7:
            L = g.pick([1, 1, 2, 2, 3, 4, 5, 8, 8, 16])
            L = min(L, n)
            p = g.int(0, n - L)
            if L >= 8 and g.chance(0.6):
                p -= p % 8
            old = {'f': g.pick(GOOD_FORMS), 'b': M[p:p + L]}
        elif r < 0.95:
            old = self._operand(g, maxlen=4)
        else:
            old = {'f': g.pick(['bin', 'BitArray', 'list']), 'b': ''}
        new = self._operand(g, want=len(old.get('b', '')) if g.chance(0.4) else None, maxlen=12)
        start, end = self._range(g, n, align=g.chance(0.2))
        count = g.wpick([(None, 6), (1, 2), (2, 2), (0, 1), (g.int(3, 50), 1), (-1, 0.3)])
        ba = g.wpick([(None, 5), (True, 3), (False, 2)])
        return {'old': old, 'new': new, 'start': start, 'end': end, 'count': count, 'ba': ba}

    def _g_reverse(self, g, n):
        a, b = self._range(g, n)
        return {'start': a, 'end': b}

    def _g_rol(self, g, n):
        a, b = self._range(g, n)
        bits = g.wpick([(g.int(0, max(n, 1) + 3), 6), (0, 1), (1, 2), (n, 1), (g.int(0, 10 ** 6), 1),
                        (-g.int(1, 5), 0.6 * self.cfg['p_wild'] + 0.05)])
        return {'bits': bits, 'start': a, 'end': b}

    _g_ror = _g_rol

    def _positions(self, g, n):
        r = g.r.random()
        if r < 0.12:
            return {'t': 'none'}
        if r < 0.32:
            return {'t': 'int', 'p': self._index(g, n)}
        if r < 0.52:
            c = g.pick([1, 1, 2, 3, 7, -1, -2])
            wild = g.chance(self.cfg['p_wild'] * 0.5)
            if c > 0:
                a = g.int(0, n)
                b = g.int(a, n + (3 if wild else 0))
                if wild and g.chance(0.5):
                    a = -g.int(1, n + 1)
            else:
                a = g.int(0, max(n - 1, 0)) + (2 if wild else 0)
                b = g.int(-1, a)
                if not wild and b < 0 and self.cfg['avoid']:
                    b = 0
            k = g.r.random()
            if k < 0.12 and n:
                # a range that runs through zero into negative positions (which count from the end, as in a list)
                if c > 0:
                    a, b = -g.int(1, n), g.int(0, n)
                else:
                    a, b = g.int(0, n - 1), -g.int(2, n + 2)
            elif k < 0.18 and n:
                # wholly negative positions
                lo = -g.int(1, n)
                a, b = (lo, g.int(lo, 0)) if c > 0 else (g.int(lo, -1), lo - 1)
            return {'t': 'range', 'a': a, 'b': b, 'c': c}
        cnt = g.pick([0, 1, 2, 3, 3, 5, 8])
        ps = [self._index(g, n) if n else g.pos(0) for _ in range(cnt)]
        if ps and g.chance(self.cfg['p_wild'] * 0.3):
            ps[g.int(0, len(ps) - 1)] = g.pick([n, n + 1, -n - 1, None, 'a'])
        t = g.pick(['list', 'tuple', 'iterable', 'oneshot', 'oneshot_gen'])
        if g.chance(self.cfg['p_pf'] * 2):
            return {'t': 'faulty', 'ps': ps, 'k': g.pick([0, len(ps) // 2, max(len(ps) - 1, 0), len(ps)])}
        return {'t': t, 'ps': ps}

    def _g_set(self, g, n):
        return {'value': g.pick([1, 0, True, False, 1, 0, 2, '', 'a', None]), 'pos': self._positions(g, n)}

    def _g_invert(self, g, n):
        return {'pos': self._positions(g, n)}

    def _g_byteswap(self, g, n):
        a, b = self._range(g, n, align=g.chance(0.85))
        r = g.r.random()
        if r < 0.15:
            fmt = {'t': 'none'}
        elif r < 0.45:
            fmt = {'t': 'int', 'n': g.wpick([(1, 3), (2, 4), (3, 2), (4, 2), (0, 1), (8, 1), (g.int(1, 40), 1),
                                            (-1, 0.5 * self.cfg['p_wild'])])}
        elif r < 0.65:
            s = ''.join((str(g.int(0, 3)) if g.chance(0.3) else '') + g.pick('bBhHlLiIqQefd') for _ in range(g.int(1, 3)))
            if g.chance(0.3):
                s = g.pick('<>@=') + s
            if g.chance(self.cfg['p_wild'] * 0.2):
                s = g.pick(['', 'z', '!h', 'h0', '2', 'h h', '<'])
            fmt = {'t': 'str', 's': s}
        else:
            ns = [g.pick([1, 1, 2, 2, 3, 4, 0]) for _ in range(g.int(0, 4))]
            if ns and g.chance(self.cfg['p_wild'] * 0.2):
                ns[g.int(0, len(ns) - 1)] = g.pick([-1, None, 'e', 1.5])
            if g.chance(self.cfg['p_pf'] * 2):
                fmt = {'t': 'faulty', 'ns': ns, 'k': g.pick([0, len(ns) // 2, max(len(ns) - 1, 0), len(ns)])}
            elif g.chance(0.12):
                a = g.int(0, 3)
                fmt = {'t': 'range', 'a': a, 'b': a + g.int(0, 3)}
            elif g.chance(self.cfg['p_wild'] * 0.25):
                # a float is no documented format - also when it equals an integer that was a format a moment ago
                fmt = {'t': 'float', 'x': g.pick([1.0, 2.0, 2.0, 3.0, 4.0, 1.5])}       # (0.0 is falsy and taken for 'no format': an undocumented type, no verdict)
            else:
                fmt = {'t': g.pick(['list', 'list', 'tuple', 'iter']), 'ns': ns}
        return {'fmt': fmt, 'start': a, 'end': b, 'repeat': not g.chance(0.35)}

    def _g_ilshift(self, g, n):
        return {'n': g.wpick([(g.int(0, n + 2), 6), (0, 1), (n, 1), (n + 1, 1), (10 ** 9, 0.5), (2 ** 70, 0.3),
                              (-g.int(1, 3), 0.5 * self.cfg['p_wild'] + 0.05)])}

    _g_irshift = _g_ilshift

    def _g_imul(self, g, n):
        return {'n': g.wpick([(0, 1), (1, 2), (2, 3), (3, 2), (4, 1), (5, 1), (g.int(6, 17), 1),
                              (-g.int(1, 3), 0.5 * self.cfg['p_wild'] + 0.05)])}

    def _g_iand(self, g, n):
        return {'bs': self._operand(g, want=n, maxlen=max(n + 2, 4))}

    _g_ior = _g_iand
    _g_ixor = _g_iand

    def _g_clear(self, g, n):
        return {}

    # ---------------------------------------------------------------------------------------------------
    # shrinking
    # ---------------------------------------------------------------------------------------------------
    def simplify(self, ev):
        out = []
        if ev.get('k') == 'init':
            cfg = ev['cfg']
            for nb in kernel._simpler(cfg.get('bits', '')):
                c = dict(cfg)
                c['bits'] = nb
                out.append({'k': 'init', 'cfg': c})
            if cfg.get('ba0'):
                c = dict(cfg)
                c['ba0'] = False
                out.append({'k': 'init', 'cfg': c})
            return out
        if ev.get('k') == 'nop':
            return out
        out.append({'k': 'nop'})          # the event is not needed at all (apply skips unknown kinds)
        for key in sorted(ev):
            if key in ('k', 'op'):
                continue
            v = ev[key]
            if isinstance(v, dict):
                for nv in self._simpler_dict(v):
                    c = dict(ev)
                    c[key] = nv
                    out.append(c)
            else:
                for nv in kernel._simpler(v):
                    c = dict(ev)
                    c[key] = nv
                    out.append(c)
                if v is not None and key in ('start', 'end', 'a', 'b', 'c', 'count', 'ba'):
                    c = dict(ev)
                    c[key] = None
                    out.append(c)
        return out

    @staticmethod
    def _simpler_dict(d):
        out = []
        if 'f' in d and d['f'] in GOOD_FORMS and d['f'] != 'bin':
            c = dict(d)
            c['f'] = 'bin'
            out.append(c)
        for key in sorted(d):
            if key in ('f', 't'):
                continue
            for nv in kernel._simpler(d[key]):
                c = dict(d)
                c[key] = nv
                out.append(c)
        return out
