"""E-REJECT / C15 (scoped) - mis-sized values are rejected, and nothing is created or changed.

Clause 1 (environment seam): an offset or length beyond the supplied bytes / bitarray / BytesIO / file raises
CreationError; a window inside the source succeeds with exactly the requested bits.  Bounded-exhaustive.
Clause 2 (history / atomicity): a rejected write on a live target (property assignment, s[a:b] = int, token-string
append, pack, Dtype.build, Array item / append / insert / extend) raises CreationError and leaves the target and every
other live object unchanged; an in-range write succeeds with exactly the requested length.  DESIGN 4/C15.
"""
from __future__ import annotations

import io
import math

import bitarray as _ba

from .. import kernel, loader
from ..envs import SimFS, bytes_to_bits
from ..kernel import Engine, call, canon, exc_is

CLASSES = ('Bits', 'BitArray', 'ConstBitStream', 'BitStream')
KINDS = ('bytes', 'bytearray', 'memoryview', 'bitarray', 'bytesio', 'filename', 'handle', 'mv_cast_H', 'mv_cast_I', 'array_H', 'bufreader',
         'bytesio_used', 'handle_update', 'handle_raw')
INT_TYPES = ('uint', 'int', 'uintbe', 'intbe', 'uintle', 'intle', 'uintne', 'intne')


def in_range(name, n, v):
    if not isinstance(n, int) or n < 1:
        return False
    if name.startswith(('uintbe', 'uintle', 'uintne', 'intbe', 'intle', 'intne')) and n % 8:
        return False
    if name.startswith('uint'):
        return 0 <= v < (1 << n)
    return -(1 << (n - 1)) <= v < (1 << (n - 1))


def boundary_values(g, name, n):
    if n < 1:
        return g.pick([0, 1, -1])
    if name.startswith('uint'):
        return g.pick([0, 1, (1 << n) - 1, 1 << n, (1 << n) + 1, -1, (1 << n) - 2, g.int(0, (1 << n) - 1), -(1 << n), 1 << (n + 3)])
    h = 1 << (n - 1)
    return g.pick([0, 1, -1, h - 1, h, -h, -h - 1, h + 1, g.int(-h, h - 1), 1 << n, -(1 << n)])


# Non-integer fixed-length dtypes: (allowed lengths in bits [None = the length may be omitted], value pool) - clause 2 sends these
# through every write route with legal and illegal lengths (float not 16/32/64, bool not 1, a length for a variable-length code ...).
_F = [0.0, 1.0, -0.5, 2.0, 1e10, -1e39, 0.1, 3.5, float('inf')]
_SMALLF = [0.0, 1.0, -0.5, 2.0, 0.25, 1.5, -1.0, 4.0, float('nan'), 1e9, -1e9, 0.3]
TYPED = {
    'float': ((16, 32, 64), _F), 'floatbe': ((16, 32, 64), _F), 'floatle': ((16, 32, 64), _F), 'floatne': ((16, 32, 64), _F),
    'bfloat': ((16, None), _F), 'bfloatbe': ((16, None), _F), 'bfloatle': ((16, None), _F), 'bfloatne': ((16, None), _F),
    'bool': ((1, None), [True, False, 1, 0, 2, -1, 3]),
    'ue': ((None,), [0, 1, 5, 100, -1, -7]), 'uie': ((None,), [0, 1, 5, 100, -1, -7]),
    'se': ((None,), [0, 1, -5, 100, -1]), 'sie': ((None,), [0, 1, -5, 100, -1]),
    'p3binary': ((8, None), _SMALLF), 'p4binary': ((8, None), _SMALLF), 'e4m3mxfp': ((8, None), _SMALLF), 'e5m2mxfp': ((8, None), _SMALLF),
    'e3m2mxfp': ((6, None), _SMALLF), 'e2m3mxfp': ((6, None), _SMALLF), 'e2m1mxfp': ((4, None), _SMALLF),
    # (e8m0 holds exact powers of two only: the neighbours of a power of two, one unit in the last place away, are not)
    'e8m0mxfp': ((8, None), [1.0, 2.0, 0.5, 4.0, 3.0, 0.3, 0.0, -1.0, float('nan'), math.nextafter(16.0, 17.0), math.nextafter(1024.0, 0.0),
                             math.nextafter(2.0 ** -20, 1.0), 2.0 ** 100 * (1 + 2.0 ** -52), math.nextafter(2.0 ** -100, 0.0), 2.0 ** 40, 2.0 ** -60]), 'mxint': ((8, None), _SMALLF),
}
TYPED_LENGTHS = [None, 0, 1, 2, 4, 6, 7, 8, 12, 16, 24, 32, 48, 64, 65, 128, -1, -16]
TYPED_ROUTES = ('ctor_kw', 'ctor_named', 'token', 'append', 'prepend', 'pack', 'pack_kw', 'build', 'prop_named', 'array_new', 'insert', 'iadd')


def typed_value_ok(name, v):
    if name == 'bool':
        return v in (0, 1)          # True / False included
    if name in ('ue', 'uie'):
        return v >= 0
    if name == 'e8m0mxfp':
        return v != v or (v > 0 and math.frexp(v)[0] == 0.5)
    if v != v:
        return name not in ('e3m2mxfp', 'e2m3mxfp', 'e2m1mxfp', 'mxint')       # formats without a NaN code refuse NaN
    return True


def typed_default_length(name):
    """The length a dtype takes when none is given, or None when a length is mandatory (or there is none to give)."""
    allowed = TYPED[name][0]
    return next((x for x in allowed if x is not None), None) if None in allowed else None


class EReject(Engine):
    prop = 'C15'
    name = 'E-REJECT'
    level = 'exploration'
    fault_kinds = ('window', 'write')
    mutating_kinds = ('window', 'write')
    rule = ('clause 1: one run per (source kind, source size 0..4 bytes [0..5 thorough] and 8 KiB, class); within a run EVERY '
            '(offset, length) in {None, 0..8*size+9}^2 is tried - bounded-exhaustive; clause 2: seeded histories of writes on a '
            'live BitArray, a positioned BitStream, an Array and an immutable bystander, with values at / just inside / just '
            'outside every range limit for widths 1..70 and illegal lengths. Non-trivial = the run contains at least one '
            'rejected (out-of-window / out-of-range) case AND at least one accepted one; distinct = distinct event-list digest.')
    stub_components = ['SimFS (scratch directory of real files under /dev/shm, real open() and mmap)']
    assumptions = ['scoped to the two non-pure clauses of C15 (short source at a read seam; a rejected write is a no-op); the full '
                   'dtype x length x value classification of fresh constructions is a pure function and is met only as workload',
                   'negative offsets / lengths are outside the statement and are not generated']
    expected_probes = ('window_inside', 'window_outside_offset', 'window_outside_length', 'window_at_exact_end', 'window_negative', 'write_rejected',
                       'write_accepted', 'write_at_limit', 'write_just_outside_limit', 'array_write_rejected', 'illegal_length', 'write_under_lsb0')
    exhaustive = True

    def plan(self, tier, base_seed):
        descs = []
        case = 0
        sizes = (0, 1, 2, 3, 4) if tier == 'quick' else (0, 1, 2, 3, 4, 5)
        for size in sizes + (8192,):
            for kind in KINDS:
                for cls in CLASSES:
                    case += 1
                    descs.append({'seed': base_seed * 1_000_003 + case, 'case': case, 'mode': 'window', 'size': size, 'kind': kind, 'cls': cls})
        runs = 16000 if tier == 'quick' else 900000
        for i in range(runs):
            case += 1
            descs.append({'seed': base_seed * 1_000_003 + case, 'case': case, 'mode': 'write', 'n': 30 if tier == 'quick' else 50, 'avoid': i % 3 == 2})
        return descs

    def n_events(self, g, desc):
        return 10 ** 6 if desc['mode'] == 'window' else desc.get('n', 30)

    def config(self, g, desc):
        if desc['mode'] == 'window':
            return {'mode': 'window', 'size': desc['size'], 'kind': desc['kind'], 'cls': desc['cls'], 'lsb0': g.chance(0.3),
                    'data': bytes(g.int(0, 255) for _ in range(min(desc['size'], 8))).hex()}
        return {'mode': 'write', 'avoid': bool(desc.get('avoid')),
                'ba': g.bits(g.pick([8, 12, 16, 24, 5, 32, 64, 70])), 'bs': g.bits(g.pick([8, 16, 24, 40, 13])), 'bspos': g.int(0, 8),
                'adtype': g.pick(['uint', 'int']) + str(g.pick([1, 3, 8, 12, 16, 33, 64, 70])), 'aitems': g.int(0, 4), 'bystander': g.bits(g.int(1, 16)), 'mxfp_overflow': g.pick(['saturate', 'saturate', 'overflow']),
                'lsb0': g.chance(0.2)}

    # -------------------------------------------------------------------------------------------------
    def start(self, cfg):
        self.cfg = cfg
        self.R = loader.main()
        self.R.reset()
        self.B = B = self.R.pkg
        self.fs = None
        self.queue = []
        if cfg.get('mode') == 'window':
            B.options.lsb0 = bool(cfg.get('lsb0'))
            size = int(cfg.get('size', 0))
            head = bytes.fromhex(cfg.get('data', ''))
            self.data = (head * (size // max(len(head), 1) + 1))[:size] if size else b''
            self.allbits = bytes_to_bits(self.data) if size <= 64 else None
            nb = size * 8
            if size <= 8:
                rng = [None] + list(range(0, nb + 10))
                for o in rng:
                    for ln in rng:
                        self.queue.append({'k': 'window', 'offset': o, 'length': ln})
                # a window that starts before the data or has a negative length lies outside it as well
                neg = [-1, -7, -8, -nb, -nb - 1]
                for o in neg:
                    for ln in (None, 0, 1, 8, nb, -1):
                        self.queue.append({'k': 'window', 'offset': o, 'length': ln})
                for ln in neg:
                    for o in (None, 0, 1, 8, nb):
                        self.queue.append({'k': 'window', 'offset': o, 'length': ln})
            else:
                pts = [None, 0, 1, 7, 8, nb - 9, nb - 8, nb - 1, nb, nb + 1, nb + 8, nb + 9, -1, -8]
                for o in pts:
                    for ln in pts:
                        self.queue.append({'k': 'window', 'offset': o, 'length': ln})
            if cfg.get('kind') in ('filename', 'handle', 'handle_update', 'handle_raw'):
                self.fs = SimFS()
                self.path = self.fs.new_file(self.data)
        else:
            self.ba = B.BitArray(bin=cfg.get('ba', '0' * 8))
            self.bs = B.BitStream(bin=cfg.get('bs', '0' * 8))
            self.bs.pos = min(int(cfg.get('bspos', 0)), len(self.bs))
            st, a = call(B.Array, str(cfg.get('adtype', 'uint8')), [0] * int(cfg.get('aitems', 0)))
            self.arr = a if st == 'ok' else B.Array('uint8')
            self.by = B.Bits(bin=cfg.get('bystander', '1'))
            if cfg.get('mxfp_overflow') == 'overflow':
                B.options.mxfp_overflow = 'overflow'
            if cfg.get('lsb0'):
                # knob: what is rejected, and that a rejected write changes nothing, does not depend on the bit numbering
                B.options.lsb0 = True
                self.probe('write_under_lsb0')
            self.accepted = self.rejected = 0
        return {'mode': cfg.get('mode')}

    def cleanup(self):
        try:
            self.R.reset()
        except Exception:
            pass
        if self.fs:
            self.fs.close()

    def gen(self, g):
        if self.cfg['mode'] == 'window':
            return self.queue.pop(0) if self.queue else None
        B = self.B
        how = g.pick(['prop', 'prop', 'prop_named', 'slice_int', 'slice_int', 'append_token', 'pack', 'build', 'ctor', 'arr_set', 'arr_append', 'arr_insert',
                      'arr_extend', 'arr_iop', 'arr_iop', 'prop_named_str', 'prop_named_str', 'arr_slice_from_array', 'illegal_length', 'bad_digits', 'token_len_mismatch', 'ctor_strlen', 'digits', 'digits', 'pack_kwlen', 'typed', 'typed', 'typed'])
        tgt = g.pick(['ba', 'bs'])
        obj = self.ba if tgt == 'ba' else self.bs
        n = len(obj)
        ev = {'k': 'write', 'how': how, 'tgt': tgt}
        if how == 'prop':
            name = g.pick(INT_TYPES)
            ev.update(name=name, v=boundary_values(g, name, n))
        elif how == 'prop_named':
            name = g.pick(INT_TYPES[:2] + ('u', 'i'))
            w = g.pick([1, 2, 7, 8, 9, 16, 33, 64, 70, 0])
            ev.update(name=name, w=w, v=boundary_values(g, {'u': 'uint', 'i': 'int'}.get(name, name), w), sep=g.pick(['', '']))
        elif how == 'slice_int':
            a = g.int(0, n)
            b = g.int(a, n)
            w = b - a
            ev.update(a=a, b=b, v=boundary_values(g, 'uint' if g.chance(0.5) else 'int', max(w, 1)))
        elif how in ('append_token', 'pack', 'build', 'ctor'):
            name = g.pick(INT_TYPES)
            w = g.pick([1, 3, 8, 12, 16, 24, 33, 64, 70])
            ev.update(name=name, w=w, v=boundary_values(g, name, w), cls=g.pick(CLASSES), form=g.pick(['colon', 'plain', 'kw']), scaled_first=g.chance(0.25))
        elif how == 'arr_iop':
            # an in-place element-wise operator whose result fits for some items and not for others
            d = self.arr.dtype
            w = d.bitlength
            lo, hi = (0, (1 << w) - 1) if d.name.startswith('uint') else (-(1 << (w - 1)), (1 << (w - 1)) - 1)
            ev.update(items=[g.pick([lo, hi, lo + 1, hi - 1, 0, 1, g.int(lo, hi)]) for _ in range(g.int(1, 5))], sym=g.pick(['+', '-', '*', '<<', '//']),
                      v=g.pick([0, 1, 2, -1, 3, hi, 1 << w]))
        elif how == 'arr_slice_from_array':
            d = self.arr.dtype
            w = d.bitlength
            lo, hi = (0, (1 << w) - 1) if d.name.startswith('uint') else (-(1 << (w - 1)), (1 << (w - 1)) - 1)
            ev.update(items=[g.pick([lo, hi, 0, g.int(lo, hi)]) for _ in range(g.int(0, 3))], i=g.int(0, 4), j=g.int(0, 4), trailing=g.bits(g.int(0, max(w - 1, 0))))
        elif how in ('arr_set', 'arr_append', 'arr_insert', 'arr_extend'):
            d = self.arr.dtype
            ev.update(v=boundary_values(g, d.name, d.bitlength), i=g.int(-2, 5), v2=boundary_values(g, d.name, d.bitlength), scaled_first=g.chance(0.25))
            if how == 'arr_extend':
                ev.update(via=g.pick(['list', 'list', 'tuple', 'iter', 'gen']), tail=g.int(0, 2))
        elif how == 'digits':
            # a digit string with (or without) one character that is not a digit of the base, through every route
            name = g.pick(['hex', 'bin', 'oct'])
            alphabet = {'hex': '0123456789abcdefABCDEF', 'bin': '01', 'oct': '01234567'}[name]
            k = g.int(1, 6)
            digs = [g.pick(alphabet) for _ in range(k)]
            bad = g.chance(0.6)
            if bad:
                invalid = {'hex': ['g', 'G', 'z', 'h'], 'bin': ['2', '9', 'a'], 'oct': ['8', '9', 'a']}[name] + ['+', '-', '.', '/', ':', '\u0663', '\uff11', '\u00b2', '@']
                digs.insert(g.int(0, len(digs)), g.pick(invalid))
            ev.update(name=name, text=''.join(digs), bad=bad, route=g.pick(['ctor', 'prop', 'token', 'token_len', 'build', 'pack', 'array', 'append']), cls=g.pick(CLASSES))
        elif how == 'typed':
            name = g.pick(sorted(TYPED))
            allowed, pool = TYPED[name]
            ln = g.pick(list(allowed)) if g.chance(0.5) else g.pick(TYPED_LENGTHS)
            ev.update(name=name, length=ln, vi=g.int(0, len(pool) - 1), route=g.pick(TYPED_ROUTES), cls=g.pick(CLASSES), pos=g.int(0, n))
        elif how == 'prop_named_str':
            # a length-carrying property name for a digit / bytes / bits type (s.hex8 = ..., s.bytes2 = ...): used once with a value of
            # that length, then with a value of another length
            name = g.pick(['hex', 'bin', 'oct', 'bytes', 'bits'])
            per = {'hex': 4, 'bin': 1, 'oct': 3, 'bytes': 8, 'bits': 1}[name]
            k = g.int(1, 4)
            ev.update(name=name, units=k, k2=g.pick([k, k, k - 1, k + 1, k + 2, 0]), dseed=g.int(0, 10 ** 6), warm=g.chance(0.8))
        elif how == 'pack_kwlen':
            name = g.pick(['bits', 'hex', 'bin', 'oct', 'uint', 'int'])
            per = {'hex': 4, 'bin': 1, 'oct': 3, 'bits': 1, 'uint': 1, 'int': 1}[name]
            k = g.int(1, 5)
            implied = per * k
            ev.update(name=name, digits=k, n=g.pick([implied, implied, implied - per, implied + per, implied + 1, 0, -1, -implied]), dseed=g.int(0, 10 ** 6))
        elif how == 'ctor_strlen':
            name = g.pick(['hex', 'bin', 'oct', 'bits'])
            per = {'hex': 4, 'bin': 1, 'oct': 3, 'bits': 1}[name]
            k = g.int(1, 6)
            implied = per * k
            ev.update(name=name, digits=k, length=g.pick([implied, implied, implied - per, implied + per, implied + 1, 0, 1]), cls=g.pick(CLASSES), dseed=g.int(0, 10 ** 6))
        elif how == 'illegal_length':
            ev.update(tok=g.pick(['float:12=1.0', 'float:0=1.0', 'bool:2=1', 'uintle:12=1', 'intbe:7=1', 'hex:7=a', 'oct:4=7', 'uint:0=0', 'int:0=0', 'bfloat:8=1.0',
                                  'floatle:24=1', 'uintne:4=1', 'e4m3mxfp:7=1']),
                      cls=g.pick(CLASSES), kwname=g.pick(['uint', 'int', 'float', 'uintle', 'intbe', 'floatle', 'bfloat']), kwlen=g.pick([0, -1, 12, 7, 65, 20]))
        elif how == 'bad_digits':
            ev.update(tok=g.pick(['0xfg', '0b102', '0o78', 'hex=xyz', 'bin=012', 'oct:6=89', 'hex:8=0xgg', '0x', 'bin:2=1a']), cls=g.pick(CLASSES))
        elif how == 'token_len_mismatch':
            ev.update(tok=g.pick(['hex:8=abc', 'hex:8=a', 'bin:3=1010', 'bin:3=10', 'oct:6=1', 'bits:4=0xab', 'bits:9=0xab', 'hex:12=ab', 'bin:0=1']), cls=g.pick(CLASSES))
        return ev

    # -------------------------------------------------------------------------------------------------
    def apply(self, ev):
        k = ev.get('k')
        if k == 'window' and self.cfg.get('mode') == 'window':
            return self._window(ev)
        if k == 'write' and self.cfg.get('mode') == 'write':
            return self._write(ev)
        return {'skip': k}, []

    # ---- clause 1 ----
    def _window(self, ev):
        B = self.B
        cls = self.cfg.get('cls') if self.cfg.get('cls') in CLASSES else 'Bits'
        C = getattr(B, cls)
        kind = self.cfg.get('kind')
        o, ln = ev.get('offset'), ev.get('length')
        if (o is not None and not isinstance(o, int)) or (ln is not None and not isinstance(ln, int)):
            return {'skip': 'not an integer'}, []
        data = self.data
        nb = len(data) * 8
        base = 0 if o is None else o
        negative = base < 0 or (ln is not None and ln < 0)
        inside = not negative and base <= nb and (ln is None or base + ln <= nb)
        kw = {}
        if o is not None:
            kw['offset'] = o
        if ln is not None:
            kw['length'] = ln
        h = None
        try:
            if kind == 'bytes':
                st, x = call(C, bytes=data, **kw)
            elif kind == 'bytearray':
                st, x = call(C, bytes=bytearray(data), **kw)
            elif kind == 'memoryview':
                st, x = call(C, bytes=memoryview(data), **kw)
            elif kind in ('mv_cast_H', 'mv_cast_I', 'array_H'):
                # a buffer whose items are wider than a byte: the window still counts bits of its bytes
                isz = 4 if kind.endswith('I') else 2
                if len(data) % isz or not data:
                    return {'skip': 'size is not a multiple of the item size'}, []
                import array as _array
                buf = memoryview(data).cast(kind[-1]) if kind.startswith('mv') else _array.array('H', data)
                st, x = call(C, bytes=buf, **kw)
            elif kind == 'bitarray':
                ba = _ba.bitarray()
                ba.frombytes(data)
                st, x = call(C, bitarray=ba, **kw)
            elif kind == 'bytesio':
                st, x = call(C, io.BytesIO(data), **kw)
            elif kind == 'bytesio_used':
                # a BytesIO the caller has written (or partly read): where it stands is not part of its content
                bio = io.BytesIO()
                bio.write(data)
                if len(data) > 1 and (o or 0) % 16 >= 8:
                    bio.seek(1)
                st, x = call(C, bio, **kw)
            elif kind == 'bufreader':
                # a buffered reader that is not a named file (pipe, wrapped in-memory stream)
                st, x = call(C, io.BufferedReader(io.BytesIO(data)), **kw)
            elif kind == 'filename':
                st, x = call(C, filename=self.path, **kw)
            elif kind == 'handle':
                h = open(self.path, 'rb')
                st, x = call(C, h, **kw)
            elif kind in ('handle_update', 'handle_raw'):
                h = open(self.path, 'r+b') if kind == 'handle_update' else open(self.path, 'rb', buffering=0)
                st, x = call(C, h, **kw)
            else:
                return {'skip': kind}, []
        finally:
            if h:
                h.close()
        incs = []
        trig = ('len' if ln is not None else 'nolen') + (',off' if o else ',off0') + (',empty-source' if nb == 0 else '') + (',negative' if negative else '')
        if inside:
            self.probe('window_inside')
            if base + (ln or 0) == nb and (ln is not None):
                self.probe('window_at_exact_end')
            n_want = nb - base if ln is None else ln
            if st != 'ok':
                incs.append(self.inc(f'window|kind={kind}|{trig}|inside-but-raised:{kernel.exc_name(x)}', cls=cls, size=len(data), offset=o, length=ln))
            else:
                got = kernel.safe_bin(x)
                want = self.allbits[base:base + n_want] if self.allbits is not None else None
                if len(got) != n_want or len(x) != n_want or (want is not None and got != want) or (want is None and got != bytes_to_bits(data[base // 8:(base + n_want + 7) // 8])[base % 8:base % 8 + n_want]):
                    incs.append(self.inc(f'window|kind={kind}|{trig}|inside-wrong-content', cls=cls, size=len(data), offset=o, length=ln, got_len=len(got)))
        else:
            self.probe('window_negative' if negative else 'window_outside_offset' if base > nb else 'window_outside_length')
            if st == 'ok':
                incs.append(self.inc(f'window|kind={kind}|{trig}|outside-but-created', cls=cls, size=len(data), offset=o, length=ln, got_len=len(kernel.safe_bin(x)),
                                     beyond='offset' if base > nb else 'length'))
            elif not exc_is(x, 'ValueError'):
                incs.append(self.inc(f'window|kind={kind}|{trig}|outside-raised:{kernel.exc_name(x)}-not-CreationError(ValueError)', cls=cls, size=len(data), offset=o, length=ln))
        self.transition(kind, inside, st)
        return {'st': st, 'inside': inside}, incs

    # ---- clause 2 ----
    def _snap(self):
        return {'ba': kernel.safe_bin(self.ba), 'bs': kernel.safe_bin(self.bs), 'bspos': kernel.get_pos(self.bs), 'arr': kernel.safe_bin(self.arr.data),
                'adtype': str(self.arr.dtype), 'by': kernel.safe_bin(self.by), 'opts': list(self.R.options_tuple())}

    def _write(self, ev):
        B = self.B
        how = str(ev.get('how'))
        tgt_name = 'bs' if ev.get('tgt') == 'bs' else 'ba'
        tgt = self.bs if tgt_name == 'bs' else self.ba
        n = len(tgt)
        before = self._snap()
        v = ev.get('v', 0)
        v = v if isinstance(v, int) and not isinstance(v, bool) else 0
        incs = []
        expect = None         # True accepted / False rejected / None no verdict on acceptance
        want_len = None
        changed_key = None    # which snapshot key may change on success
        new_obj = None
        if how == 'prop':
            name = str(ev.get('name')) if ev.get('name') in INT_TYPES else 'uint'
            expect = in_range(name, n, v)
            changed_key, want_len = tgt_name, n
            st, r = call(setattr, tgt, name, v)
            trig = f'prop:{name}' + ('|non-whole-byte-length' if name[-2:] in ('be', 'le', 'ne') and n % 8 else '')
        elif how == 'prop_named':
            name = str(ev.get('name')) if ev.get('name') in ('uint', 'int', 'u', 'i') else 'uint'
            w = ev.get('w', 8) if isinstance(ev.get('w', 8), int) else 8
            expect = in_range({'u': 'uint', 'i': 'int'}.get(name, name), w, v)
            changed_key, want_len = tgt_name, w
            st, r = call(setattr, tgt, f'{name}{w}', v)
            trig = 'prop-named'
        elif how == 'slice_int':
            a, b = ev.get('a', 0), ev.get('b', 0)
            a = a if isinstance(a, int) and 0 <= a <= n else 0
            b = b if isinstance(b, int) and a <= b <= n else a
            w = b - a
            expect = in_range('uint' if v >= 0 else 'int', w, v)
            changed_key, want_len = tgt_name, n
            st, r = call(tgt.__setitem__, slice(a, b), v)
            trig = 'slice-int' + ('|empty-slice' if w == 0 else '')
        elif how in ('append_token', 'pack', 'build', 'ctor'):
            name = str(ev.get('name')) if ev.get('name') in INT_TYPES else 'uint'
            w = ev.get('w', 8) if isinstance(ev.get('w', 8), int) else 8
            expect = in_range(name, w, v)
            trig = how
            if ev.get('scaled_first') and 1 <= w <= 64 and v != 0:
                # the same number was first encoded, legitimately, through a Dtype of the same name and length WITH a scale (a scale
                # divides the value before encoding): that says nothing about the unscaled write that follows
                k_ = 1
                while not in_range(name, w, v // k_) and k_ < (1 << 80):
                    k_ *= 2
                st_s, d_s = call(B.Dtype, name, w, k_)
                if st_s == 'ok':
                    call(d_s.build, v)
                    call(lambda: B.Array(d_s, [v]))
                    self.probe('scaled_dtype_used_before_unscaled_write')
                    trig = how + '|after-a-scaled-dtype-of-the-same-name'
            if how == 'append_token':
                changed_key, want_len = tgt_name, n + w
                st, r = call(tgt.append, f'{name}:{w}={v}' if ev.get('form') != 'plain' else f'{name}{w}={v}')
            elif how == 'pack':
                if ev.get('form') == 'kw':
                    st, r = call(B.pack, f'{name}:w', v, w=w)
                elif ev.get('form') == 'colon' and expect:
                    # the format given as a list of strings, then its first string on its own: each call stands for itself
                    st, r = call(B.pack, [f'{name}:{w}', 'uint:4'], v, 1)
                    if st != 'ok' or len(r) != w + 4:
                        incs.append(self.inc('write|pack-list|in-range-but-raised-or-wrong-length', event=ev, outcome=kernel.exc_name(r) if st != 'ok' else len(r)))
                    st, r = call(B.pack, f'{name}:{w}', v)
                    st2, r2 = call(B.pack, f'{name}:{w}', v, 1)
                    if st2 == 'ok':
                        incs.append(self.inc('write|pack-after-list|one-value-too-many-but-accepted', event=ev, got_len=len(r2)))
                else:
                    st, r = call(B.pack, f'{name}:{w}', v)
                new_obj, want_len = (r if st == 'ok' else None), w
            elif how == 'build':
                st, r = call(lambda: B.Dtype(name, w).build(v))
                new_obj, want_len = (r if st == 'ok' else None), w
            else:
                C = getattr(B, ev.get('cls') if ev.get('cls') in CLASSES else 'Bits')
                if ev.get('form') == 'plain':
                    st, r = call(lambda: C(**{f'{name}{w}': v}))
                else:
                    st, r = call(lambda: C(**{name: v, 'length': w}))
                new_obj, want_len = (r if st == 'ok' else None), w
        elif how == 'arr_slice_from_array':
            # a[i:j] = <Array of the same dtype, possibly with trailing bits of its own>: the ITEMS are assigned, so the data
            # changes by whole items only
            d = self.arr.dtype
            w = d.bitlength
            items = [x_ for x_ in ev.get('items', []) if isinstance(x_, int) and not isinstance(x_, bool) and in_range(d.name, w, x_)][:4]
            tr = ''.join(c for c in str(ev.get('trailing', '')) if c in '01')[:max(w - 1, 0)]
            st0, src = call(B.Array, str(d), items, '0b' + tr if tr else None)
            if st0 != 'ok':
                return {'skip': 'source Array could not be built'}, []
            na = len(self.arr)
            i_ = min(max(ev.get('i', 0) if isinstance(ev.get('i', 0), int) else 0, 0), na)
            j_ = min(max(ev.get('j', 0) if isinstance(ev.get('j', 0), int) else 0, i_), na)
            if len(before['arr']) % w:
                return {'skip': 'target has trailing bits'}, []
            expect = True
            changed_key = 'arr'
            want_len = len(before['arr']) + (len(items) - (j_ - i_)) * w
            trig = 'arr_slice_from_array' + ('|source-has-trailing-bits' if tr else '')
            st, r = call(self.arr.__setitem__, slice(i_, j_), src)
        elif how == 'arr_iop':
            import operator as _op
            d = self.arr.dtype
            items = [x_ for x_ in ev.get('items', []) if isinstance(x_, int) and not isinstance(x_, bool) and in_range(d.name, d.bitlength, x_)][:6]
            sym = ev.get('sym') if ev.get('sym') in ('+', '-', '*', '<<', '//') else '+'
            if not items or (sym == '<<' and not 0 <= v <= 80) or (sym == '//' and v == 0):
                return {'skip': 'nothing to operate on / undefined operation'}, []
            self.arr = B.Array(str(d), items)
            before = self._snap()
            py = {'+': _op.add, '-': _op.sub, '*': _op.mul, '<<': _op.lshift, '//': _op.floordiv}[sym]
            res = [py(x_, v) for x_ in items]
            expect = all(in_range(d.name, d.bitlength, r_) for r_ in res)
            changed_key, want_len = 'arr', len(before['arr'])
            trig = 'arr_iop' + ('' if expect else '|some-fit' if any(in_range(d.name, d.bitlength, r_) for r_ in res) else '|none-fits')
            iop = {'+': _op.iadd, '-': _op.isub, '*': _op.imul, '<<': _op.ilshift, '//': _op.ifloordiv}[sym]
            st, r = call(iop, self.arr, v)
            if expect is False:
                self.probe('array_write_rejected')
            elif st == 'ok' and self.arr.tolist() != res:
                incs.append(self.inc(f'write|{trig}|accepted-with-wrong-items', event=ev, got=self.arr.tolist()[:8], want=res[:8]))
        elif how in ('arr_set', 'arr_append', 'arr_insert', 'arr_extend'):
            d = self.arr.dtype
            expect = in_range(d.name, d.bitlength, v)
            changed_key = 'arr'
            trig = how
            if ev.get('scaled_first') and v != 0 and d.bitlength <= 64:
                k_ = 1
                while not in_range(d.name, d.bitlength, v // k_) and k_ < (1 << 80):
                    k_ *= 2
                st_s, d_s = call(B.Dtype, d.name, d.bitlength, k_)
                if st_s == 'ok':
                    call(lambda: B.Array(d_s, [v]))
                    call(d_s.build, v)
                    self.probe('scaled_dtype_used_before_unscaled_write')
                    trig = how + '|after-a-scaled-dtype-of-the-same-name'
            i = ev.get('i', 0) if isinstance(ev.get('i', 0), int) else 0
            if how == 'arr_set':
                if not len(self.arr):
                    return {'skip': 'empty array'}, []
                i %= len(self.arr)
                want_len = len(before['arr'])
                st, r = call(self.arr.__setitem__, i, v)
            elif how == 'arr_append':
                want_len = len(before['arr']) + d.bitlength
                st, r = call(self.arr.append, v)
            elif how == 'arr_insert':
                want_len = len(before['arr']) + d.bitlength
                st, r = call(self.arr.insert, max(i, 0), v)
            else:
                v2 = ev.get('v2', 0) if isinstance(ev.get('v2', 0), int) else 0
                ok2 = in_range(d.name, d.bitlength, v2)
                # a value that does not fit is rejected and nothing changes, wherever it stands in the iterable
                if expect and not ok2:
                    expect = False
                tail = ev.get('tail', 0) if ev.get('tail', 0) in (0, 1, 2) else 0
                seq = [v, v2] + [0] * tail
                if expect and ok2:
                    want_len = len(before['arr']) + len(seq) * d.bitlength
                # the values may come from a one-shot producer: what was taken from it before the refusal cannot be asked for again
                via = ev.get('via', 'list')
                src = tuple(seq) if via == 'tuple' else iter(seq) if via == 'iter' else (x for x in seq) if via == 'gen' else seq
                if via in ('iter', 'gen'):
                    trig = how + '|one-shot-iterable'
                st, r = call(self.arr.extend, src)
            if expect is False:
                self.probe('array_write_rejected')
        elif how == 'digits':
            name = ev.get('name') if ev.get('name') in ('hex', 'bin', 'oct') else 'hex'
            per = {'hex': 4, 'bin': 1, 'oct': 3}[name]
            text = str(ev.get('text', '0'))[:40]
            alphabet = {'hex': '0123456789abcdefABCDEF', 'bin': '01', 'oct': '01234567'}[name]
            valid = len(text) > 0 and all(ch in alphabet for ch in text)
            if not valid and all((ch in alphabet) or ch in ' _\t\n' for ch in text):
                return {'skip': 'whitespace / underscores are legal separators'}, []
            if not valid and (any(p_ in text.lower() for p_ in ('0x', '0b', '0o')) or '=' in text or ',' in text or '*' in text or '(' in text):
                # (the unedited suite pins '0x55' * 10 as a valid hex string: a prefix is dropped wherever it occurs)
                return {'skip': 'prefix / token syntax characters: not a plain digit string'}, []
            nbits = per * len(text)
            C = getattr(B, ev.get('cls') if ev.get('cls') in CLASSES else 'Bits')
            route = ev.get('route')
            expect = valid
            trig = f'digits:{name}:{route}'
            if route == 'prop':
                changed_key, want_len = tgt_name, nbits
                st, r = call(setattr, tgt, name, text)
            elif route == 'append':
                changed_key, want_len = tgt_name, n + nbits
                st, r = call(tgt.append, f'{name}={text}')
            elif route == 'token':
                st, r = call(C, f'{name}={text}')
                new_obj, want_len = (r if st == 'ok' else None), nbits
            elif route == 'token_len':
                st, r = call(C, f'{name}:{nbits}={text}')
                new_obj, want_len = (r if st == 'ok' else None), nbits
            elif route == 'build':
                st, r = call(lambda: B.Dtype(name, nbits).build(text))
                new_obj, want_len = (r if st == 'ok' else None), nbits
            elif route == 'pack':
                st, r = call(B.pack, f'{name}:{nbits}', text)
                new_obj, want_len = (r if st == 'ok' else None), nbits
            elif route == 'array':
                a_ = B.Array(f'{name}{nbits}') if nbits else None
                if a_ is None:
                    return {'skip': 'empty'}, []
                st, r = call(a_.append, text)
                if st == 'ok' and kernel.safe_bin(a_.data) and len(a_.data) != nbits:
                    incs.append(self.inc(f'write|{trig}|accepted-with-wrong-length', event=ev))
                if st != 'ok' and len(a_.data):
                    incs.append(self.inc(f'write|{trig}|rejected-but-state-changed', event=ev))
            else:
                st, r = call(lambda: C(**{name: text}))
                new_obj, want_len = (r if st == 'ok' else None), nbits
        elif how == 'typed':
            name = ev.get('name') if ev.get('name') in TYPED else 'float'
            if self.cfg.get('lsb0') and name in ('ue', 'se', 'uie', 'sie'):
                return {'skip': 'exp-Golomb codes are not available in lsb0 mode'}, []
            allowed, pool = TYPED[name]
            ln = ev.get('length')
            ln = ln if (ln is None or (isinstance(ln, int) and not isinstance(ln, bool) and -64 <= ln <= 256)) else None
            vi = ev.get('vi', 0)
            val = pool[vi % len(pool)] if isinstance(vi, int) else pool[0]
            route = ev.get('route') if ev.get('route') in TYPED_ROUTES else 'ctor_kw'
            C = getattr(B, ev.get('cls') if ev.get('cls') in CLASSES else 'Bits')
            variable = allowed == (None,)
            len_ok = ln in allowed
            eff = ln if ln is not None else typed_default_length(name)       # bits the result must have (None: self-delimiting code)
            expect = len_ok and typed_value_ok(name, val)
            trig = f'typed:{name}:{route}' + ('' if len_ok else '|illegal-length') + ('' if typed_value_ok(name, val) else '|illegal-value')
            if not len_ok:
                self.probe('illegal_length')
            tok_l = f'{name}' if ln is None else f'{name}:{ln}'
            vtxt = repr(val)
            if route in ('ctor_named', 'prop_named') and (ln is None or ln < 0):
                route = 'ctor_kw' if route == 'ctor_named' else 'append'
            if route == 'ctor_kw':
                kw = {name: val}
                if ln is not None:
                    kw['length'] = ln
                st, r = call(lambda: C(**kw))
                new_obj, want_len = (r if st == 'ok' else None), eff
            elif route == 'ctor_named':
                st, r = call(lambda: C(**{f'{name}{ln}': val}))
                new_obj, want_len = (r if st == 'ok' else None), eff
            elif route == 'token':
                st, r = call(C, f'{tok_l}={vtxt}')
                new_obj, want_len = (r if st == 'ok' else None), eff
            elif route in ('append', 'prepend', 'iadd', 'insert'):
                changed_key, want_len = tgt_name, (n + eff if eff is not None else None)
                if route == 'append':
                    st, r = call(tgt.append, f'{tok_l}={vtxt}')
                elif route == 'prepend':
                    st, r = call(tgt.prepend, f'{tok_l}={vtxt}')
                elif route == 'iadd':
                    st, r = call(tgt.__iadd__, f'{tok_l}={vtxt}')
                else:
                    ps = ev.get('pos', 0)
                    ps = ps if isinstance(ps, int) and 0 <= ps <= n else 0
                    st, r = call(tgt.insert, f'{tok_l}={vtxt}', ps)
            elif route == 'pack':
                st, r = call(B.pack, tok_l, val)
                new_obj, want_len = (r if st == 'ok' else None), eff
            elif route == 'pack_kw':
                if ln is None:
                    st, r = call(B.pack, f'{name}=v', v=val)
                else:
                    st, r = call(B.pack, f'{name}:n=v', n=ln, v=val)
                new_obj, want_len = (r if st == 'ok' else None), eff
            elif route == 'build':
                st, r = call(lambda: (B.Dtype(name) if ln is None else B.Dtype(name, ln)).build(val))
                new_obj, want_len = (r if st == 'ok' else None), eff
            elif route == 'prop_named':
                changed_key, want_len = tgt_name, eff
                st, r = call(setattr, tgt, f'{name}{ln}', val)
            else:   # array_new: an Array of this dtype holding the value, then a second value appended
                if variable:
                    expect = False      # a variable-length code is no Array dtype at all
                    trig = f'typed:{name}:array_new|variable-length-dtype'
                st, r = call(lambda: B.Array(tok_l.replace(':', ''), [val]))
                if st == 'ok':
                    new_obj, want_len = r.data, eff
            if expect and eff is None and st == 'ok':
                want_len = None       # self-delimiting code: the length is the codeword's (C10, not judged here)
        elif how == 'prop_named_str':
            name = ev.get('name') if ev.get('name') in ('hex', 'bin', 'oct', 'bytes', 'bits') else 'hex'
            per = {'hex': 4, 'bin': 1, 'oct': 3, 'bytes': 8, 'bits': 1}[name]
            k = ev.get('units', 1) if isinstance(ev.get('units', 1), int) and 0 < ev.get('units', 1) <= 8 else 1
            k2 = ev.get('k2', k) if isinstance(ev.get('k2', k), int) and 0 <= ev.get('k2', k) <= 12 else k
            r_ = kernel.Gen(ev.get('dseed', 0) if isinstance(ev.get('dseed', 0), int) else 0)

            def mkval(units):
                if name == 'bytes':
                    return bytes(r_.int(0, 255) for _ in range(units))
                digs = ''.join(r_.pick({'hex': '0123456789abcdef', 'bin': '01', 'oct': '01234567', 'bits': '01'}[name]) for _ in range(units))
                return ('0b' + digs if digs else '') if name == 'bits' else digs
            # stated length: in the unit of the token for bytes (bytes2 = 2 bytes), in bits otherwise
            stated = k if name == 'bytes' else per * k
            attr = f'{name}{stated}'
            if ev.get('warm'):
                call(setattr, tgt, attr, mkval(k))          # a first, fitting use of this very name
                before = self._snap()
                n = len(tgt)
            expect = (k2 == k)
            changed_key, want_len = tgt_name, per * k
            trig = f'prop-named:{name}' + ('|after-a-fitting-use' if ev.get('warm') else '')
            st, r = call(setattr, tgt, attr, mkval(k2))
        elif how == 'pack_kwlen':
            # the length of a token given as a keyword must agree with the value exactly as a literal length must
            name = ev.get('name') if ev.get('name') in ('bits', 'hex', 'bin', 'oct', 'uint', 'int') else 'bits'
            per = {'hex': 4, 'bin': 1, 'oct': 3, 'bits': 1, 'uint': 1, 'int': 1}[name]
            k = ev.get('digits', 1) if isinstance(ev.get('digits', 1), int) and 0 < ev.get('digits', 1) <= 16 else 1
            nn = ev.get('n', 0) if isinstance(ev.get('n', 0), int) else 0
            r_ = kernel.Gen(ev.get('dseed', 0) if isinstance(ev.get('dseed', 0), int) else 0)
            if name in ('uint', 'int'):
                val = 1
                expect = nn >= (1 if name == 'uint' else 2)
            else:
                digs = ''.join(r_.pick({'hex': '0123456789abcdef', 'bin': '01', 'oct': '01234567', 'bits': '01'}[name]) for _ in range(k))
                val = ('0b' + digs) if name == 'bits' else digs
                expect = (nn == per * k)
            want_len = nn
            trig = f'pack-kwlen:{name}'
            st, r = call(B.pack, f'{name}:n', val, n=nn)
            new_obj = r if st == 'ok' else None
        elif how == 'ctor_strlen':
            # a length stated together with a value whose own length is different must be rejected (every route)
            name = ev.get('name') if ev.get('name') in ('hex', 'bin', 'oct', 'bits') else 'hex'
            per = {'hex': 4, 'bin': 1, 'oct': 3, 'bits': 1}[name]
            k = ev.get('digits', 1) if isinstance(ev.get('digits', 1), int) and 0 < ev.get('digits', 1) <= 64 else 1
            ln = ev.get('length', 0) if isinstance(ev.get('length', 0), int) else 0
            r_ = kernel.Gen(ev.get('dseed', 0) if isinstance(ev.get('dseed', 0), int) else 0)
            digs = ''.join(r_.pick({'hex': '0123456789abcdef', 'bin': '01', 'oct': '01234567', 'bits': '01'}[name]) for _ in range(k))
            val = ('0b' + digs) if name == 'bits' else digs
            C = getattr(B, ev.get('cls') if ev.get('cls') in CLASSES else 'Bits')
            expect = (ln == per * k)
            want_len = ln
            trig = f'ctor-strlen:{name}'
            st, r = call(lambda: C(**{name: val, 'length': ln}))
            new_obj = r if st == 'ok' else None
        elif how in ('illegal_length', 'bad_digits', 'token_len_mismatch'):
            C = getattr(B, ev.get('cls') if ev.get('cls') in CLASSES else 'Bits')
            tok = str(ev.get('tok', 'uint:0=0'))
            expect = False
            trig = how
            self.probe('illegal_length')
            if how == 'illegal_length' and ev.get('kwlen') is not None and isinstance(ev.get('kwlen'), int) and (ev.get('kwlen') % 3 == 0 or ev.get('kwlen') < 0):
                kwname, kwlen = str(ev.get('kwname', 'uint')), ev.get('kwlen')
                legal = (kwname in ('uint', 'int') and kwlen >= 1) or (kwname in ('float', 'floatle') and kwlen in (16, 32, 64)) or \
                        (kwname in ('uintle', 'intbe') and kwlen >= 8 and kwlen % 8 == 0) or (kwname == 'bfloat' and kwlen == 16)
                if legal:
                    expect = True
                    want_len = kwlen
                st, r = call(lambda: C(**{kwname: 1, 'length': kwlen}))
                new_obj = r if st == 'ok' else None
                trig = f'illegal_length:kw={kwname}'
            else:
                which = ev.get('tgt')
                if which == 'bs':
                    changed_key = tgt_name
                    st, r = call(tgt.append, tok)
                else:
                    st, r = call(C, tok)
        else:
            return {'skip': how}, []
        after = self._snap()
        diff = sorted(k_ for k_ in before if before[k_] != after[k_])
        if expect is True:
            self.accepted += 1
            self.probe('write_accepted')
            if v in (0, ) or abs(v) >= 1:
                pass
            if st != 'ok':
                incs.append(self.inc(f'write|{trig}|in-range-but-raised:{kernel.exc_name(r)}', event=ev, n=n))
            else:
                allowed = {changed_key} if changed_key else set()
                if changed_key == 'bs':
                    allowed.add('bspos')
                extra = [k_ for k_ in diff if k_ not in allowed]
                if extra:
                    incs.append(self.inc(f'write|{trig}|accepted-but-other-state-changed', event=ev, changed=extra))
                if new_obj is not None and want_len is not None and len(new_obj) != want_len:
                    incs.append(self.inc(f'write|{trig}|accepted-with-wrong-length', event=ev, got=len(new_obj), want=want_len))
                if changed_key and want_len is not None and len(after[changed_key]) != want_len:
                    incs.append(self.inc(f'write|{trig}|accepted-with-wrong-length', event=ev, got=len(after[changed_key]), want=want_len))
        elif expect is False:
            self.rejected += 1
            self.probe('write_rejected')
            if st == 'ok':
                incs.append(self.inc(f'write|{trig}|out-of-range-but-accepted', event=ev, n=n, changed=diff))
            else:
                if not exc_is(r, 'ValueError'):
                    incs.append(self.inc(f'write|{trig}|rejected-with:{kernel.exc_name(r)}-not-CreationError(ValueError)', event=ev, n=n))
                if diff:
                    incs.append(self.inc(f'write|{trig}|rejected-but-state-changed', event=ev, changed=diff, before={k_: before[k_] for k_ in diff}, after={k_: after[k_] for k_ in diff}))
        # limits reached?
        if how in ('prop', 'prop_named', 'append_token', 'pack', 'build', 'ctor', 'slice_int') and isinstance(want_len, int):
            w_ = ev.get('w', n) if how != 'prop' else n
            if isinstance(w_, int) and w_ >= 1 and v in ((1 << w_) - 1, (1 << (w_ - 1)) - 1, -(1 << (w_ - 1)), 0):
                self.probe('write_at_limit')
            if isinstance(w_, int) and w_ >= 1 and v in ((1 << w_), (1 << (w_ - 1)), -(1 << (w_ - 1)) - 1, -1):
                self.probe('write_just_outside_limit')
        # resynchronise after any incident: restore the pre-state
        if incs:
            self.ba = B.BitArray(bin=before['ba'])
            self.bs = B.BitStream(bin=before['bs'])
            kernel.set_pos(self.bs, min(before['bspos'], len(before['bs'])))
            self.arr = B.Array(self.cfg.get('adtype', 'uint8'))
            self.arr.data = B.BitArray(bin=before['arr'])
            self.R.reset_options()
        else:
            # keep the world small
            if len(self.ba) > 200:
                self.ba = B.BitArray(bin=before['ba'][:64])
            if len(self.bs) > 200:
                self.bs = B.BitStream(bin=before['bs'][:64])
            if len(self.arr.data) > 400:
                self.arr.data = B.BitArray()
        self.state(how, expect, st)
        self.transition(how, expect, st, kernel.exc_name(r) if st == 'exc' else None)
        return {'st': st, 'expect': expect}, incs

    def _classify(self):
        rec = self.rec
        if self.cfg.get('mode') == 'window':
            ins = rec.probes.get('window_inside', 0)
            outs = rec.probes.get('window_outside_offset', 0) + rec.probes.get('window_outside_length', 0)
            rec.nontrivial = bool(ins and outs)
        else:
            rec.nontrivial = bool(rec.probes.get('write_accepted', 0) and rec.probes.get('write_rejected', 0))

    def simplify(self, ev):
        return kernel.simplify_generic(ev)
