"""E-ROUTE / C08 - behaviour depends only on bit content, not on where the bits came from.

A pair (X, T): X is built by a construction route (text, bytes window, iterable, bitarray, array, BytesIO, slice /
copy of a larger object, string-cache hit, file by name or handle with offset / length on a simulated file system
whose bytes beyond the logical window are the complement pattern); T = cls(bin=X.bin) is built from the bits
observed right after construction.  Every event applies the same public call to both; canonical results,
exception classes and (for mutators) final contents must agree.  Environment events: unlink / append to the file,
cache clears, lsb0 toggles while the pair is alive.  DESIGN 4/C08.
"""
from __future__ import annotations

import array
import copy
import io
import os

import bitarray as _ba

from .. import kernel, loader
from ..envs import SimFS, bits_to_bytes
from ..kernel import Engine, call, canon

CLASSES = ('Bits', 'BitArray', 'ConstBitStream', 'BitStream')
MUTABLE = ('BitArray', 'BitStream')
STREAM = ('ConstBitStream', 'BitStream')
ROUTES = ('bin', 'hex', 'oct', 'token', 'token_hit', 'bytes', 'bytes_win', 'bytearray', 'memoryview', 'bools', 'bitarray',
          'bitarray_win', 'bitarray_le', 'bitarray_win_le', 'frozenbitarray', 'array', 'bytesio', 'bytesio_win', 'slice', 'slice_step', 'copy', 'ctor_of_other', 'file', 'file', 'file_len',
          'file_len', 'file_off', 'file_off_len', 'handle', 'handle_len', 'handle_off', 'fromstring', 'join', 'pack', 'pack1', 'int_zeros', 'uint_kw',
          'iter_gen', 'iter_objs', 'iter_iterator', 'memoryview_wide_win', 'file_pages')
FILE_ROUTES = ('file', 'file_len', 'file_off', 'file_off_len', 'handle', 'handle_len', 'handle_off', 'file_pages')

READ_OPS = ('len', 'bool', 'iter', 'getitem', 'getslice', 'add', 'radd', 'mul', 'rmul', 'invert', 'lshift', 'rshift', 'and', 'or', 'xor',
            'eq', 'ne', 'eq_lit', 'hash', 'contains', 'find', 'rfind', 'findall', 'count', 'all', 'any', 'startswith', 'endswith',
            'cut', 'split', 'join', 'tobytes', 'bytes', 'tobitarray', 'tofile', 'unpack', 'interp', 'str', 'pp', 'copy', 'to_cls',
            'and_twin', 'add_twin', 'array_from', 'hash_eq', 'pack_bits', 'in_set', 'eq_fresh', 'eq_fresh', 'remake_same', 'deepcopy', 'pickle')
STREAM_OPS = ('read', 'peek', 'readlist', 'setpos', 'readto', 'bytealign', 'getpos')
MUT_OPS = ('append', 'prepend', 'insert', 'overwrite', 'delslice', 'delitem', 'setitem', 'setslice', 'set', 'invert_ip', 'reverse', 'rol',
           'ror', 'byteswap', 'ilshift', 'irshift', 'imul', 'iand', 'ior', 'ixor', 'clear', 'replace', 'iadd', 'prop')
INTERPS = ('uint', 'int', 'hex', 'bin', 'oct', 'bytes', 'float', 'floatle', 'uintle', 'intbe', 'uintne', 'ue', 'se', 'uie', 'sie', 'bool',
           'bfloat', 'e4m3mxfp', 'p4binary', 'u', 'i', 'h', 'b', 'o', 'f', 'bits', 'len', 'length', 'uint8', 'i16', 'float32')


def lit(bits):
    if not bits:
        return ''
    return ('0x' + format(int(bits, 2), f'0{len(bits) // 4}x')) if len(bits) % 4 == 0 else '0b' + bits


class ERoute(Engine):
    prop = 'C08'
    name = 'E-ROUTE'
    level = 'exploration'
    fault_kinds = ('env', 'toggle', 'cache_clear')
    mutating_kinds = ('op',)
    rule = ('seeded runs; each run builds one pair (route-built object, in-memory twin of its observed bits) by one of 31 '
            'routes x 4 classes x msb0/lsb0 and applies 25-50 identical public calls to both (49 non-mutating kinds, 7 stream '
            'kinds, 24 mutators), interleaved with environment events (unlink / append to the backing file, cache clears, '
            'lsb0 toggles). Non-trivial = at least one operation AND at least one environment / toggle / cache event or a '
            'file-backed route with slack bytes after the logical window; distinct = distinct event-list digest.')
    stub_components = ['SimFS (scratch directory of real files under /dev/shm, real open() and mmap)']
    assumptions = ['the twin is built from the bits observed after construction; in addition every source-window route (text, bytes-like, '
                   'iterable, bitarray, array, BytesIO, file) must build exactly the window of its source and must not refuse it - routes that go '
                   'through a position-taking operation (slice, join, pack) are exempt from that, their selection is mode-dependent by definition', 'little-endian host only', 'repr() of a file-backed object names its file by design and '
                   'is compared only for other routes']
    expected_probes = ('file_route_with_slack_bytes', 'file_route_length_shorter_than_file', 'op_on_file_backed_lazy',
                       'mutator_on_file_derived', 'env_unlink_then_op', 'lsb0_pair', 'cache_hit_route', 'op_after_toggle', 'big_file_pair', 'op_against_fresh_twin', 'env_replace_then_reopen')

    def plan(self, tier, base_seed):
        descs = self.seeded_plan(tier, base_seed, quick=(24000, 28), thorough=(1500000, 50))
        # a few pairs over a file of a little more than 2 MiB with a marker laid across every power-of-two byte boundary
        # from 4 KiB up: whatever piece size a reader works in, some marker straddles two pieces
        nbig = 16 if tier == 'quick' else 640
        step = max(1, len(descs) // nbig)
        for j in range(nbig):
            d = dict(descs[min(j * step, len(descs) - 1)])
            d['seed'] = d['seed'] + 500_000_000
            d['big'] = True
            d['n'] = 24
            descs.insert(min(j * step, len(descs)), d)
        return descs

    def config(self, g, desc):
        if desc.get('big'):
            return {'avoid': False, 'big': True, 'route': g.pick(['file', 'handle', 'file_len', 'file_off']), 'cls': g.pick(CLASSES), 'bits': '', 'lsb0': False,
                    'off': g.pick([8, 16, 3]), 'slack': g.pick([0, 1, 3]), 'toggle_w': 0, 'env_w': g.pick([0, 1]), 'cut': g.pick([0, 0, 5, 8])}
        route = g.pick(ROUTES)
        big = g.chance(0.06)
        n = g.pick([8191 * 8, 8192 * 8, 8193 * 8]) // 8 if big and route in FILE_ROUTES else g.length(80)
        if route in ('file', 'handle', 'bytes', 'bytearray', 'memoryview', 'array', 'bytesio', 'hex') and n % 8:
            n += 8 - n % 8
        if route == 'oct':
            n -= n % 3
        return {'avoid': bool(desc.get('avoid')), 'route': route, 'cls': g.pick(CLASSES), 'bits': g.bits(n), 'lsb0': g.chance(0.3),
                'off': g.pick([0, 3, 8, 13]), 'slack': g.pick([0, 0, 1, 2, 3]), 'toggle_w': g.pick([0, 0, 1, 2]), 'env_w': g.pick([0, 1, 2])}

    # -------------------------------------------------------------------------------------------------
    def start(self, cfg):
        self.cfg = cfg
        self.R = loader.main()
        self.R.reset()
        self.B = B = self.R.pkg
        self.fs = SimFS()
        self.path = None
        self.toggled = False
        B.options.lsb0 = bool(cfg.get('lsb0'))
        if cfg.get('lsb0'):
            self.probe('lsb0_pair')
        cls = cfg.get('cls') if cfg.get('cls') in CLASSES else 'Bits'
        self.cls = cls
        self.init_incs = []
        self.cfg_bits_override = None
        self.win_off = 0
        st, x = call(self._build, cfg, cls)
        want = self.cfg_bits_override if self.cfg_bits_override is not None else ''.join(c for c in str(cfg.get('bits', '')) if c in '01')
        if st != 'ok':
            # every route is generated with a source that holds the window it asks for: a refusal is a difference between routes
            # (the run goes on with a plain pair)
            if not cfg.get('big'):
                self.init_incs.append(self.inc(f'route={cfg.get("route")}|construct|raised:{kernel.exc_name(x)}', cls=cls, n=len(want), off=cfg.get('off'), lsb0=bool(cfg.get('lsb0'))))
            x = getattr(B, cls)(bin=''.join(c for c in str(cfg.get('bits', '')) if c in '01'))
        elif not cfg.get('big') and cfg.get('route') not in ('slice', 'slice_step', 'join', 'pack', 'pack1', 'int_zeros') and x.bin != want:
            # (routes that go through a position-taking operation - slices, join, pack - select other bits under lsb0 by definition)
            # ... and so is a route that hands over other bits than the window of its source (the pair then goes on with what was built)
            self.init_incs.append(self.inc(f'route={cfg.get("route")}|construct|other-bits-than-the-source-window', cls=cls, got=x.bin[:120], want=want[:120], off=cfg.get('off'),
                                           lsb0=bool(cfg.get('lsb0'))))
        self.X = x
        self.bits0 = x.bin
        self.T = self._twin(x)
        self.derived = []          # (op, object derived from X, object derived from T): must stay equal for ever
        return {'route': cfg.get('route'), 'built': st, 'len': len(kernel.safe_bin(x))}

    def _twin(self, x):
        C = getattr(self.B, self.cls)
        if self.cfg.get('big'):
            t = C(bytes=x.tobytes(), length=len(x))
            if kernel.is_stream(x):
                kernel.set_pos(t, kernel.get_pos(x))
            return t
        b = x.bin
        t = C(bin=b) if b else C()
        if kernel.is_stream(x):
            kernel.set_pos(t, kernel.get_pos(x))
        return t

    def _build(self, cfg, cls):
        B = self.B
        C = getattr(B, cls)
        bits = ''.join(c for c in str(cfg.get('bits', '')) if c in '01')
        route = cfg.get('route')
        off = int(cfg.get('off', 0)) if isinstance(cfg.get('off', 0), int) else 0
        n = len(bits)
        comp = ''.join('1' if c == '0' else '0' for c in bits)

        if cfg.get('big'):
            size = (1 << 21) + 4096 + 3
            data = bytearray(size)
            self.markers = []
            for k in range(12, 22):
                m = bytes([0xA5, k, 0x5A, 0xC3])
                data[(1 << k) - 2:(1 << k) + 2] = m
                self.markers.append(((1 << k) - 2, m))
            slack = max(0, int(cfg.get('slack', 0)))
            self.path = self.fs.new_file(bytes(data) + b'\xff' * slack)
            self.probe('big_file_pair')
            cut = int(cfg.get('cut', 0)) if isinstance(cfg.get('cut', 0), int) else 0
            if route == 'file':
                return C(filename=self.path)
            if route == 'handle':
                return _with_handle(self.path, lambda h: C(h))
            if route == 'file_off':
                return C(filename=self.path, offset=off)
            return C(filename=self.path, length=8 * size - cut)

        def filedata(prefix_bits, body_bits):
            """File bytes: prefix + body; the rest of the last byte and `slack` further bytes are the complement pattern."""
            allb = prefix_bits + body_bits
            fill = ('1' if (not body_bits or body_bits[-1] == '0') else '0') * ((-len(allb)) % 8)
            last = body_bits[-8:] if body_bits else '00000000'
            slack = bytes([(~int(last.ljust(8, '0'), 2)) & 0xFF]) * max(0, int(cfg.get('slack', 1)))
            return bits_to_bytes(allb + fill) + slack

        if route == 'bin':
            return C(bin=bits)
        if route == 'hex':
            return C(hex=format(int(bits, 2), f'0{n // 4}x')) if n and n % 4 == 0 else C(bin=bits)
        if route == 'oct':
            return C(oct=format(int(bits, 2), f'0{n // 3}o')) if n and n % 3 == 0 else C(bin=bits)
        if route in ('token', 'token_hit', 'fromstring'):
            s = lit(bits)
            if route == 'token_hit':
                B.Bits(s)
                self.probe('cache_hit_route')
            return C.fromstring(s) if route == 'fromstring' else C(s)
        if route == 'bytes':
            return C(bytes=bits_to_bytes(bits)) if n % 8 == 0 else C(bytes=bits_to_bytes(bits), length=n)
        if route == 'bytes_win':
            return C(bytes=bits_to_bytes('1' * off + bits + '1' * 5), offset=off, length=n)
        if route == 'bytearray':
            return C(bytearray(bits_to_bytes(bits))) if n % 8 == 0 else C(bytes=bytearray(bits_to_bytes(bits)), length=n)
        if route == 'memoryview':
            return C(memoryview(bits_to_bytes(bits))) if n % 8 == 0 else C(bytes=memoryview(bits_to_bytes(bits)), length=n)
        if route == 'memoryview_wide_win':
            # a window of a buffer whose items are wider than a byte (offset and length count bits of its bytes all the same)
            raw = bits_to_bytes('1' * off + bits + '1' * 5)
            raw = raw + b'\xff' * ((-len(raw)) % 4)
            return C(bytes=memoryview(raw).cast('I' if n % 2 else 'H'), offset=off, length=n)
        if route == 'bools':
            return C([c == '1' for c in bits]) if n % 2 else C(tuple(int(c) for c in bits))
        if route == 'bitarray':
            return C(_ba.bitarray(bits))
        if route == 'bitarray_win':
            return C(bitarray=_ba.bitarray('1' * off + bits + '01'), offset=off, length=n)
        if route in ('iter_gen', 'iter_objs', 'iter_iterator'):
            # an iterable of arbitrary objects taken by truth value - as a list, as a generator and as a one-shot iterator:
            # the three hand over the same items, so they must build the same bits
            truthy = (1, True, 5, -1, 'a', 2.5, (0,), b'x')
            falsy = (0, False, 0.0, '', (), None, b'')
            items = [(truthy if c == '1' else falsy)[(i * 7 + n) % (len(truthy) if c == '1' else len(falsy))] for i, c in enumerate(bits)]
            x = C(items) if route == 'iter_objs' else C(v for v in items) if route == 'iter_gen' else C(iter(items))
            st_, ref = call(lambda: C(list(items)).bin)
            if st_ != 'ok' or ref != x.bin or x.bin != bits:
                self.init_incs.append(self.inc(f'route={route}|construct|differs-from-the-same-items-as-a-list', items=[repr(v) for v in items][:40],
                                               got=x.bin[:100], as_list=ref[:100] if st_ == 'ok' else kernel.exc_name(ref)))
            return x
        if route == 'frozenbitarray':
            # an immutable (hashable) bitarray as the source: a source like any other
            return C(_ba.frozenbitarray(bits))
        if route == 'bitarray_le':
            # the same bit sequence held by a bitarray of the other (little-endian) storage order
            return C(_ba.bitarray(bits, endian='little'))
        if route == 'bitarray_win_le':
            return C(bitarray=_ba.bitarray('1' * off + bits + '01', endian='little'), offset=off, length=n)
        if route == 'array':
            return C(array.array('B', bits_to_bytes(bits))) if n % 8 == 0 else C(bin=bits)
        if route == 'bytesio':
            return C(io.BytesIO(bits_to_bytes(bits))) if n % 8 == 0 else C(io.BytesIO(bits_to_bytes(bits)), length=n)
        if route == 'bytesio_win':
            return C(io.BytesIO(bits_to_bytes('1' * off + bits + '1' * 5)), offset=off, length=n)
        if route == 'slice':
            return C(bin='101' + bits + '0110')[3:3 + n]
        if route == 'slice_step':
            return C(bin=''.join(c + d for c, d in zip(bits, comp)))[::2]
        if route == 'copy':
            return copy.copy(C(bin=bits)) if n % 2 else C(bin=bits).copy()
        if route == 'ctor_of_other':
            other = CLASSES[(CLASSES.index(cls) + 1 + n % 3) % 4]
            return C(getattr(B, other)(bin=bits))
        if route == 'join':
            h = n // 2
            return C().join([C(bin=bits[:h]) if h else C(), lit(bits[h:])])
        if route == 'pack':
            r = B.pack('bits, bin', B.Bits(bin=bits[:n // 2]) if n // 2 else B.Bits(), bits[n // 2:])
            return C(r)
        if route == 'pack1':
            # pack with a single 'bits' token: the packed stream itself (for BitStream), else an object made from it
            r = B.pack('bits', lit(bits) if n % 2 else B.Bits(bin=bits) if n else B.Bits())
            return r if cls == 'BitStream' else C(r)
        if route == 'int_zeros':
            x = C(n)
            return x if cls not in MUTABLE or not n else (lambda y: (y.__setitem__(slice(None), lit(bits)), y)[1])(x)
        if route == 'uint_kw':
            return C(uint=int(bits, 2), length=n) if n else C()
        # file routes ------------------------------------------------------------------------------
        self.probe('file_route_with_slack_bytes')
        if route in ('file', 'handle'):
            # whole file (no slack possible): lazily mapped
            self.path = self.fs.new_file(bits_to_bytes(bits + '0' * ((-n) % 8)))
            self.remake = (lambda: C(filename=self.path)) if route == 'file' else (lambda: _with_handle(self.path, lambda h: C(h)))
            return self.remake()
        if route == 'file_pages':
            # the window is the tail of a file that is a whole number of memory pages long (an empty window then starts exactly at EOF)
            tail = bits_to_bytes(bits + '0' * ((-n) % 8)) if n else b''
            pages = 1 + (n // 8) // 4096 + (n % 3 == 0)
            size = 4096 * pages
            padn = (-n) % 8
            body = b'\xee' * (size - len(tail)) + tail
            self.path = self.fs.new_file(body)
            start_bit = 8 * (size - len(tail))
            self.cfg_bits_override = bits + '0' * padn
            self.win_off = start_bit
            self.remake = lambda: C(filename=self.path, offset=start_bit)
            return self.remake()
        if route in ('file_len', 'handle_len'):
            self.path = self.fs.new_file(filedata('', bits))
            self.probe('file_route_length_shorter_than_file')
            if route == 'file_len':
                self.remake = (lambda: C(filename=self.path, length=n)) if n % 2 else (lambda: C(filename=self.path, length=n, offset=0))
            else:
                self.remake = lambda: _with_handle(self.path, lambda h: C(h, length=n))
            return self.remake()
        if route in ('file_off', 'handle_off'):
            body = bits + '0' * ((-(off + n)) % 8)       # to the end of the file: no slack after it
            self.path = self.fs.new_file(bits_to_bytes('1' * off + body))
            self.cfg_bits_override = body
            self.remake = (lambda: C(filename=self.path, offset=off)) if route == 'file_off' else (lambda: _with_handle(self.path, lambda h: C(h, offset=off)))
            return self.remake()
        if route == 'file_off_len':
            self.path = self.fs.new_file(filedata('1' * off, bits))
            self.probe('file_route_length_shorter_than_file')
            self.remake = lambda: C(filename=self.path, offset=off, length=n)
            return self.remake()
        return C(bin=bits)

    def cleanup(self):
        try:
            self.R.reset()
        except Exception:
            pass
        if getattr(self, 'fs', None):
            self.X = self.T = None
            self.fs.close()

    # -------------------------------------------------------------------------------------------------
    def gen(self, g):
        cfg = self.cfg
        r = g.r.random()
        if r < 0.03 * cfg['toggle_w']:
            return {'k': 'toggle'}
        if r < 0.03 * cfg['toggle_w'] + 0.03 * cfg['env_w']:
            return {'k': 'env', 'what': g.pick(['unlink', 'append', 'rewrite_tail', 'replace', 'replace'])}
        if r < 0.03 * cfg['toggle_w'] + 0.03 * cfg['env_w'] + 0.02:
            return {'k': 'cache_clear'}
        if cfg.get('big'):
            return self._gen_big(g)
        n = len(kernel.safe_bin(self.X))
        ops = list(READ_OPS) * 2
        if self.cls in STREAM:
            ops += list(STREAM_OPS) * 3
        if self.cls in MUTABLE:
            ops += list(MUT_OPS)
        op = g.pick(ops)
        ev = {'k': 'op', 'op': op, 'a': g.opt_pos(n), 'b': g.opt_pos(n), 'c': g.step(), 'idx': g.pos(n), 'n': g.pick([0, 1, 2, 3, 7, 8, n, n + 1, -1]),
              'bits': g.bits(g.pick([0, 1, 2, 3, 8, 8, 16])), 'ba': g.wpick([(None, 4), (True, 2), (False, 1)]), 'count': g.pick([None, None, 0, 1, 2]),
              'value': g.pick([0, 1]), 'poslist': [g.pos(n, 1) for _ in range(g.int(0, 3))]}
        if op in ('find', 'rfind', 'findall', 'contains', 'startswith', 'endswith', 'split', 'replace', 'readto') and n and g.chance(0.7):
            xb = kernel.safe_bin(self.X)
            ln = g.pick([1, 2, 3, 8, 8, 16])
            p = g.int(0, max(n - ln, 0))
            ev['bits'] = xb[p:p + ln]
        if op in ('find', 'rfind', 'findall', 'startswith', 'endswith', 'cut', 'split', 'replace', 'reverse', 'rol', 'ror', 'byteswap') and g.chance(0.5):
            ev['a'] = ev['b'] = None
        if op == 'interp':
            ev['name'] = g.pick(INTERPS)
        if op in ('read', 'peek'):
            ev['fmt'] = g.pick([0, 1, 3, 8, n, n + 1, -1, 'uint:8', 'int:3', 'hex:8', 'bin:2', 'ue', 'se', 'bits:5', 'bytes:1', 'bool', 'float:16', 'uintle:16', 'bin', 'hex', 'pad:2'])
        if op in ('readlist', 'unpack'):
            ev['fmt'] = g.pick(['uint:3, bin:2', '2*u4', 'bits:4, bits', 'hex', 'int:5, uint:n', 'bool, pad:2, bin', 'ue, ue', ['uint:8', 3], 'bytes:1, bin', 'foo:3'])
        if op == 'pp':
            ev['fmt'] = g.pick([None, 'bin', 'hex', 'bin, hex', 'oct', 'bytes', 'hex:16', 'u8', 'bin:3'])
            ev['width'] = g.pick([120, 40, 10, 1])
        if op == 'prop':
            ev['name'] = g.pick(['uint', 'int', 'hex', 'bin', 'bytes', 'float', 'u8', 'bits'])
        if op == 'byteswap':
            ev['fmt'] = g.pick([None, 0, 1, 2, [1, 2], 'h', '<2b'])
        if op in READ_OPS and g.chance(0.15):
            # compare with a brand-new twin of the current bits instead of the twin that shared the pair's history
            ev['fresh'] = True
        return ev

    def _gen_big(self, g):
        """Searches and small reads round the planted markers of a big file-backed pair."""
        n = len(self.X)
        shift = int(self.cfg.get('off', 0)) if self.cfg.get('route') == 'file_off' else 0
        if not hasattr(self, 'sweep'):
            # directed start of every big run: each marker searched for over the whole object, from either end, byte-aligned or not
            self.sweep = []
            for bp, m_ in self.markers:
                mb = ''.join(format(b, '08b') for b in m_)
                how = g.pick(['findall', 'find', 'rfind', 'contains'])
                self.sweep.append({'k': 'op', 'op': how, 'bits': g.pick([mb, mb, mb[8:], mb[:24]]), 'a': None, 'b': None, 'c': None, 'idx': 0, 'n': 0,
                                   'ba': g.pick([True, True, None, False]), 'count': None, 'value': 1, 'poslist': []})
            g.r.shuffle(self.sweep)
        if self.sweep:
            return self.sweep.pop()
        bytepos, m = g.pick(self.markers)
        mbits = ''.join(format(b, '08b') for b in m)
        at = 8 * bytepos - shift                      # where the marker starts in the object
        op = g.pick(['find', 'find', 'rfind', 'findall', 'findall', 'contains', 'count', 'getslice', 'startswith', 'readto', 'read', 'len', 'hash_eq'] if self.cls in STREAM
                    else ['find', 'find', 'rfind', 'findall', 'findall', 'contains', 'count', 'getslice', 'startswith', 'len', 'hash_eq'])
        sub = g.pick([mbits, mbits, mbits[8:], mbits[:24], mbits[3:29], mbits[8:24]])
        ev = {'k': 'op', 'op': op, 'bits': sub, 'a': g.pick([None, None, 0, max(at - 64, 0), max(at - 8 * 4096, 0), at, at + 1]),
              'b': g.pick([None, None, None, min(at + 64, n), n]), 'c': None, 'idx': max(at, 0), 'n': 0, 'ba': g.pick([None, True, True, False]),
              'count': g.pick([None, 1, 2, 3]), 'value': 1, 'poslist': []}
        if op == 'getslice':
            ev.update(a=max(at - g.int(0, 24), 0), b=min(at + g.int(8, 72), n), c=g.pick([None, None, 2, -1]))
        if op == 'count':
            ev['value'] = g.pick([0, 1])
        if op == 'read':
            ev['fmt'] = g.pick([32, 'hex:32', 'uint:24', 'bytes:4'])
        if op in ('readto', 'read') and g.chance(0.6):
            ev['seek'] = max(at - g.pick([0, 8, 16, 32768]), 0)
        return ev

    # -------------------------------------------------------------------------------------------------
    def _do(self, x, ev, other_self):
        """Apply the operation to x.  `other_self` is the object to use where the op takes 'the other member of the
        pair' (so that X op T and T op X are both exercised symmetrically)."""
        B = self.B
        op = ev.get('op')
        g = ev.get
        bits = ''.join(c for c in str(g('bits', '')) if c in '01')
        L = lit(bits)
        a, b, c, n = g('a'), g('b'), g('c'), g('n', 0)
        n = n if isinstance(n, int) else 0
        idx = g('idx', 0) if isinstance(g('idx', 0), int) else 0
        sl = slice(a, b, c)
        eqlen = B.Bits(bin=('10' * len(x))[:len(x)]) if len(x) else B.Bits()
        if op == 'len':
            return len(x)
        if op == 'bool':
            return bool(x)
        if op == 'iter':
            return [v for _, v in zip(range(200), iter(x))]
        if op == 'getitem':
            return x[idx]
        if op == 'getslice':
            return x[sl]
        if op == 'add':
            return x + L
        if op == 'radd':
            return L + x
        if op == 'add_twin':
            return [x + other_self, other_self + x]
        if op == 'mul':
            return x * min(n, 4)
        if op == 'rmul':
            return min(n, 4) * x
        if op == 'invert':
            return ~x
        if op == 'lshift':
            return x << n
        if op == 'rshift':
            return x >> n
        if op in ('and', 'or', 'xor'):
            f = {'and': lambda p, q: p & q, 'or': lambda p, q: p | q, 'xor': lambda p, q: p ^ q}[op]
            return [f(x, eqlen), f(eqlen, x)]
        if op == 'and_twin':
            return [x & other_self, other_self | x, x ^ other_self]
        if op == 'eq':
            return [x == other_self, other_self == x, x != other_self, x == eqlen]
        if op == 'ne':
            return x != L
        if op == 'eq_fresh':
            # another object made by the SAME route from the SAME source (same file, same BytesIO content ...): equality
            # must be decided by the bits each side holds now, not by where they once came from
            remake = getattr(self, 'remake', None)
            st, y = call(remake) if (remake is not None and not getattr(self, 'unlinked', False)) else call(self._build, self.cfg, self.cls)
            if st != 'ok':
                return None
            return [x == y, y == x, x != y, y.bin == kernel.safe_bin(y)]
        if op == 'deepcopy':
            return copy.deepcopy(x)
        if op == 'pickle':
            import pickle
            return pickle.loads(pickle.dumps(x, protocol=int(g('n', 0)) % 6 if isinstance(g('n', 0), int) else 2))
        if op == 'remake_same':
            # the same route over the same source once more: it builds what it built the first time, whatever has been done since to
            # the objects it built before (only asked while the source itself is untouched)
            if getattr(self, 'unlinked', False) or self.cfg.get('big') or self.cfg.get('route') in ('pack1',) and False:
                return None
            st, y = call(self._build, self.cfg, self.cls)
            if st != 'ok':
                return ['raised', kernel.exc_name(y)]
            return [y.bin == self.bits0, len(y) == len(self.bits0)]
        if op == 'eq_lit':
            return [x == L, x == lit(x.bin), x == x.tobytes() if len(x) % 8 == 0 else None, x == 3, x == None]   # noqa
        if op == 'hash':
            return hash(x) == hash(B.Bits(bin=x.bin) if len(x) else B.Bits())
        if op == 'hash_eq':
            return hash(x) == hash(other_self)
        if op == 'in_set':
            return [x in {other_self}, other_self in {x: 1}]
        if op == 'contains':
            return L in x
        if op in ('find', 'rfind'):
            return getattr(x, op)(L, a, b, g('ba'))
        if op == 'findall':
            return [p for _, p in zip(range(300), x.findall(L, a, b, g('count'), g('ba')))]
        if op == 'count':
            return x.count(g('value', 1))
        if op in ('all', 'any'):
            pl = g('poslist')
            return getattr(x, op)(g('value', 1), pl) if pl else getattr(x, op)(g('value', 1))
        if op in ('startswith', 'endswith'):
            return getattr(x, op)(L, a, b)
        if op == 'cut':
            return [p for _, p in zip(range(300), x.cut(n, a, b, g('count')))]
        if op == 'split':
            return [p for _, p in zip(range(300), x.split(L, a, b, g('count'), g('ba')))]
        if op == 'join':
            return x.join([L, other_self, x])
        if op == 'tobytes':
            return x.tobytes()
        if op == 'bytes':
            return bytes(x)
        if op == 'tobitarray':
            return x.tobitarray()
        if op == 'tofile':
            f = io.BytesIO()
            x.tofile(f)
            return f.getvalue()
        if op == 'unpack':
            return x.unpack(g('fmt', 'bin'), n=3) if 'n' in str(g('fmt')) else x.unpack(g('fmt', 'bin'))
        if op == 'interp':
            return getattr(x, str(g('name', 'bin')))
        if op == 'str':
            return [str(x), x.__class__.__name__]
        if op == 'pp':
            s = io.StringIO()
            if g('fmt') is None:
                x.pp(width=int(g('width', 120)), stream=s)
            else:
                x.pp(str(g('fmt')), width=int(g('width', 120)), stream=s)
            return s.getvalue()
        if op == 'copy':
            return [copy.copy(x), x.copy(), x[:]]
        if op == 'to_cls':
            return [B.Bits(x), B.BitArray(x), B.ConstBitStream(x), B.BitStream(x), B.BitArray(bits=x)]
        if op == 'array_from':
            return B.Array('uint4', x)
        if op == 'pack_bits':
            return B.pack('bits, bits:3', x, x[:3] if len(x) >= 3 else '0b101')
        # stream ops
        if op in ('read', 'peek'):
            return getattr(x, op)(g('fmt', 0))
        if op == 'readlist':
            return x.readlist(g('fmt', 'bin'), n=3) if 'n' in str(g('fmt')) else x.readlist(g('fmt', 'bin'))
        if op == 'setpos':
            x.pos = idx
            return None
        if op == 'getpos':
            return [x.pos, x.bitpos]
        if op == 'readto':
            return x.readto(L, g('ba'))
        if op == 'bytealign':
            return x.bytealign()
        # mutators
        if op in ('append', 'prepend'):
            return getattr(x, op)(L)
        if op == 'iadd':
            y = x
            y += L
            return y is x
        if op in ('insert', 'overwrite'):
            return getattr(x, op)(L, idx)
        if op == 'delslice':
            del x[sl]
            return None
        if op == 'delitem':
            del x[idx]
            return None
        if op == 'setitem':
            x[idx] = g('value', 1)
            return None
        if op == 'setslice':
            x[sl] = L
            return None
        if op == 'set':
            pl = g('poslist')
            return x.set(g('value', 1), pl) if pl else x.set(g('value', 1))
        if op == 'invert_ip':
            pl = g('poslist')
            return x.invert(pl) if pl else x.invert()
        if op == 'reverse':
            return x.reverse(a, b)
        if op in ('rol', 'ror'):
            return getattr(x, op)(n, a, b)
        if op == 'byteswap':
            return x.byteswap(g('fmt'), a, b)
        if op == 'ilshift':
            y = x
            y <<= n
            return y is x
        if op == 'irshift':
            y = x
            y >>= n
            return y is x
        if op == 'imul':
            y = x
            y *= min(n, 3)
            return y is x
        if op in ('iand', 'ior', 'ixor'):
            y = x
            if op == 'iand':
                y &= eqlen
            elif op == 'ior':
                y |= eqlen
            else:
                y ^= eqlen
            return y is x
        if op == 'clear':
            return x.clear()
        if op == 'replace':
            return x.replace(L, lit(bits[::-1] + '1'), a, b, g('count'), g('ba'))
        if op == 'prop':
            name = str(g('name', 'uint'))
            val = {'uint': abs(n), 'int': -abs(n), 'hex': 'a5', 'bin': '0110', 'bytes': b'\x0f', 'float': 1.5, 'u8': 200, 'bits': L}.get(name, 1)
            setattr(x, name, val)
            return None
        return None

    def apply(self, ev):
        k = ev.get('k')
        B = self.B
        if k == 'toggle':
            B.options.lsb0 = not B.options.lsb0
            self.toggled = True
            self.fault('lsb0_toggle')
            return {'lsb0': bool(B.options.lsb0)}, self._compare_state('toggle', ev)
        if k == 'cache_clear':
            self.R.clear_caches()
            self.fault('cache_clear')
            return {}, self._compare_state('cache_clear', ev)
        if k == 'env':
            what = ev.get('what')
            if self.path and os.path.exists(self.path):
                if what == 'unlink':
                    os.unlink(self.path)
                    self.fault('file_unlinked')
                    self.unlinked = True
                elif what == 'append':
                    with open(self.path, 'ab') as f:
                        f.write(b'\xa5\x5a')
                    self.fault('file_appended')
                elif what == 'rewrite_tail':
                    # bytes strictly after the mapped logical window may change at any time
                    pass
                elif what == 'replace' and getattr(self, 'remake', None) is not None and not self.cfg.get('big'):
                    # the file is replaced (new inode, same name, same size, same modification time) while the pair - which maps the
                    # old one - stays alive: an object made from the name NOW holds the new file's bits
                    with open(self.path, 'rb') as f:
                        cur = f.read()
                    new = bytes(b ^ 0xFF for b in cur)
                    stt_ = os.stat(self.path)
                    tmp = self.path + '.new'
                    with open(tmp, 'wb') as f:
                        f.write(new)
                    os.utime(tmp, ns=(stt_.st_atime_ns, stt_.st_mtime_ns))
                    os.replace(tmp, self.path)
                    self.fault('file_replaced')
                    self.probe('env_replace_then_reopen')
                    st_, y = call(self.remake)
                    st0, y0 = call(lambda: type(self.X)(bytes=new))
                    incs_r = []
                    if st_ == 'ok' and st0 == 'ok':
                        allb = kernel.safe_bin(y0)
                        yb = kernel.safe_bin(y)
                        route_ = self.cfg.get('route')
                        off_ = int(self.cfg.get('off', 0)) if route_ in ('file_off', 'handle_off', 'file_off_len') else int(getattr(self, 'win_off', 0))
                        if allb[off_:off_ + len(yb)] != yb:
                            incs_r.append(self.inc(f'route={route_}|env=replace|object-made-after-the-replacement-holds-other-bits-than-the-file', cls=self.cls, size=len(new),
                                                   got=yb[:80], file_has=allb[off_:off_ + len(yb)][:80]))
                    # (the pair itself keeps mapping the old file: nothing is said about it; later eq_fresh objects come from the new one)
                    self.unlinked = True
                    return {'env': what}, incs_r + self._compare_state('env', ev)
            return {'env': what}, self._compare_state('env', ev)
        if k != 'op':
            return {'skip': k}, []
        if self.init_incs:
            incs0, self.init_incs = self.init_incs, []
            return {'init': len(incs0)}, incs0
        op = ev.get('op')
        if op in MUT_OPS and self.cls not in MUTABLE:
            return {'skip': 'immutable'}, []
        if op in STREAM_OPS and self.cls not in STREAM:
            return {'skip': 'not a stream'}, []
        route = self.cfg.get('route')
        if route in FILE_ROUTES:
            self.probe('op_on_file_backed_lazy' if route in ('file', 'handle', 'file_len', 'handle_len') else 'op_on_file_offset_route')
            if op in MUT_OPS:
                self.probe('mutator_on_file_derived')
            if getattr(self, 'unlinked', False):
                self.probe('env_unlink_then_op')
        if self.toggled:
            self.probe('op_after_toggle')
        if self.cfg.get('big') and ev.get('seek') is not None and self.cls in STREAM:
            for o_ in (self.X, self.T):
                kernel.set_pos(o_, min(max(int(ev['seek']), 0), len(o_)))
        T = self.T
        if ev.get('fresh') and op in READ_OPS and not self.cfg.get('big'):
            st_f, T = call(self._twin, self.X)
            if st_f != 'ok':
                T = self.T
            else:
                self.probe('op_against_fresh_twin')
        stx, vx = call(self._do, self.X, ev, T)
        stt, vt = call(self._do, T, ev, self.X)
        if T is not self.T and kernel.is_stream(T):
            kernel.set_pos(self.T, min(max(kernel.get_pos(T), 0), len(self.T)))     # the standing twin follows where the new one went
        ox = canon(vx) if stx == 'ok' else {'exc': kernel.exc_name(vx)}
        ot = canon(vt) if stt == 'ok' else {'exc': kernel.exc_name(vt)}
        incs = []
        mode = 'lsb0' if B.options.lsb0 else 'msb0'
        if ox != ot:
            if stx != stt:
                disc = f'route-raises:{kernel.exc_name(vx)}-twin-ok' if stx == 'exc' else f'route-ok-twin-raises:{kernel.exc_name(vt)}'
            elif stx == 'exc':
                disc = 'exception-class-differs'
            else:
                disc = 'result-differs'
            incs.append(self.inc(f'route={route}|op={op}|{mode}|{disc}', cls=self.cls, event=ev, route_result=_short(ox), twin_result=_short(ot),
                                 content=kernel.safe_bin(self.T)[:100]))
        if stx == 'ok' and stt == 'ok' and op in DERIVING and not incs:
            fx, ft = _flat_bits(vx), _flat_bits(vt)
            if len(fx) == len(ft):
                for dx, dt in zip(fx, ft):
                    if dx is not self.X and dt is not self.T and len(kernel.safe_bin(dx)) <= 4096:
                        self.derived.append((op, dx, dt))
                self.derived = self.derived[-6:]
        incs.extend(self._compare_state(f'op={op}', ev, quiet=bool(incs)))
        self.state(route, self.cls, mode, min(len(kernel.safe_bin(self.T)) // 16, 5))
        self.transition(op, stx, mode, route in FILE_ROUTES)
        return {'x': _short(ox), 'same': not incs}, incs

    def _compare_state(self, label, ev, quiet=False):
        """Contents (and stream positions) of the pair agree; resynchronise the twin from the subject otherwise."""
        incs = []
        # objects derived earlier from the two members of the pair were equal when made and must remain equal
        keep = []
        for dop, dx, dt in getattr(self, 'derived', []):
            if kernel.safe_bin(dx) != kernel.safe_bin(dt):
                self.probe('derived_pair_diverged')
                if not quiet:
                    mode = 'lsb0' if self.B.options.lsb0 else 'msb0'
                    incs.append(self.inc(f'route={self.cfg.get("route")}|derived-by={dop}|{mode}|derived-objects-diverged-after:{label}', cls=self.cls, event=ev,
                                         from_route=kernel.safe_bin(dx)[:100], from_twin=kernel.safe_bin(dt)[:100], derived_cls=type(dx).__name__))
            else:
                keep.append((dop, dx, dt))
        self.derived = keep
        bx, bt = kernel.safe_bin(self.X), kernel.safe_bin(self.T)
        px, pt = (kernel.get_pos(self.X) if kernel.is_stream(self.X) else None), (kernel.get_pos(self.T) if kernel.is_stream(self.T) else None)
        if bx != bt or px != pt:
            if not quiet:
                mode = 'lsb0' if self.B.options.lsb0 else 'msb0'
                what = 'content-differs' if bx != bt else 'pos-differs'
                incs.append(self.inc(f'route={self.cfg.get("route")}|{label}|{mode}|{what}', cls=self.cls, event=ev, route_content=bx[:100], twin_content=bt[:100], route_pos=px, twin_pos=pt))
            C = getattr(self.B, self.cls)
            self.T = C(bin=bx) if bx else C()
            if px is not None:
                if not 0 <= px <= len(bx):
                    px = 0
                    kernel.set_pos(self.X, px)
                kernel.set_pos(self.T, px)
        return incs

    def simplify(self, ev):
        return kernel.simplify_generic(ev)


DERIVING = ('copy', 'deepcopy', 'pickle', 'to_cls', 'getslice', 'add', 'radd', 'add_twin', 'mul', 'rmul', 'invert', 'lshift', 'rshift', 'and', 'or', 'xor', 'join',
            'cut', 'split', 'pack_bits', 'read', 'peek', 'readto', 'unpack', 'interp')


def _flat_bits(v, out=None, depth=0):
    out = [] if out is None else out
    if kernel.is_bits(v):
        out.append(v)
    elif isinstance(v, (list, tuple)) and depth < 3:
        for i in v[:8]:
            _flat_bits(i, out, depth + 1)
    return out


def _with_handle(path, fn):
    with open(path, 'rb') as h:
        return fn(h)


def _short(o):
    s = kernel.jdump(o)
    return o if len(s) < 300 else {'digest': kernel.digest(o)[:16], 'head': s[:160]}
