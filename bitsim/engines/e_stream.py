"""E-STREAM / C06 - stream reads consume exactly what they return; the position is always valid.

World: one ConstBitStream or BitStream (memory / whole real file / slice of a larger stream) and the reference
machine (B: str of '0'/'1', p: int).  msb0 only; options.bytealigned is toggled by events.  Interpretation of bits
is never re-modelled: the value a read must return is the library's own whole-value interpretation of B[p:p+n];
what IS modelled is n (from the token, or from the exp-Golomb length function below) and every movement of pos.
Content effects of BitStream mutators come from a twin BitArray receiving the same call (C03 owns content).
DESIGN 4/C06.
"""
from __future__ import annotations

import copy as _copy
import io
import operator

from .. import kernel, loader
from ..envs import SimFS, bits_to_bytes
from ..kernel import Engine, call, canon, exc_is

CLASSES = ('ConstBitStream', 'BitStream')
ROUTES = ('mem', 'file', 'slice', 'bytes', 'auto')

# ---- token tables (from the documentation's token list; lengths in the token's own unit) -------------------
ANYLEN = ('uint', 'int', 'bin', 'bits', 'pad', 'u', 'i', 'b')
BYTEMULT = ('uintle', 'uintbe', 'intle', 'intbe', 'uintne', 'intne')
HEXN = ('hex', 'h')
OCTN = ('oct', 'o')
FLOATS = ('float', 'floatbe', 'floatle', 'floatne', 'f')
SINGLE = {'bool': 1, 'bfloat': 16, 'bfloatbe': 16, 'bfloatle': 16, 'bfloatne': 16, 'p3binary': 8, 'p4binary': 8,
          'e4m3mxfp': 8, 'e5m2mxfp': 8, 'e3m2mxfp': 6, 'e2m3mxfp': 6, 'e2m1mxfp': 4, 'e8m0mxfp': 8, 'mxint': 8}
SINGLE_NAMES = tuple(sorted(SINGLE))
VAR = ('ue', 'se', 'uie', 'sie')
NUMERIC = ('uint', 'int', 'u', 'i', 'float', 'f', 'floatle', 'uintbe', 'intle', 'ue', 'se', 'uie', 'sie', 'e4m3mxfp', 'mxint')
STR_SPELL = ('colon', 'plain', 'ws')
OBJ_SPELL = ('dtype', 'dtype2', 'dtypes')
READ_JUNK = ('', 'uint:8,uint:8', '2*uint:8', 'xyz', 'xyz:3', 'uint:-1', 'uint8=3', '0xff', '<H', 'uint:8:8', '8',
             'uint:n', '(uint:8)', 'ue:x')
LIST_JUNK = ('xyz', 'xyz:3', 'uint:-1', 'uint8=3', '0xff', '2*(uint:8', 'uint:q', 'uint:8:8', 'q*uint:8')
STRUCT_CODES = {'b': ('int', 8), 'B': ('uint', 8), 'h': ('int', 16), 'H': ('uint', 16), 'l': ('int', 32),
                'L': ('uint', 32), 'i': ('int', 32), 'I': ('uint', 32), 'q': ('int', 64), 'Q': ('uint', 64),
                'e': ('float', 16), 'f': ('float', 32), 'd': ('float', 64)}
ENDIAN = {'>': 'be', '<': 'le', '@': 'ne', '=': 'ne'}
INTERNAL = ('AssertionError', 'AttributeError', 'KeyError', 'NameError', 'RecursionError', 'ZeroDivisionError',
            'UnboundLocalError', 'NotImplementedError', 'OverflowError', 'error')

# trigger tags of the known (expected) findings; avoidance runs never generate them
T_SINGLE_END = 'single-length-at-end'
T_NEG_LIST = 'negative-count-in-list'
T_NEG_KW = 'negative-kwarg-length'
T_NEG_DT = 'negative-dtype-length'
T_PROP_BEYOND = 'pos-beyond-new-length'
T_SELF_CONST = 'self-operand-const'
KNOWN_TRIGGERS = (T_SINGLE_END, T_NEG_LIST, T_NEG_KW, T_NEG_DT, T_PROP_BEYOND, T_SELF_CONST)


def token_plan(name, length):
    """Static plan of a (name, length) token: ('bad', why) | ('var', code) | ('fix', nbits, is_single) |
    ('stretchy', unit).  length None = no length given; negative lengths are handled by the caller."""
    if name in VAR:
        return ('bad', 'length-on-variable') if length is not None else ('var', name)
    if name in SINGLE:
        if length is None or length == SINGLE[name]:
            return ('fix', SINGLE[name], True)
        return ('bad', 'illegal-length')
    known = name in ANYLEN or name in BYTEMULT or name in HEXN or name in OCTN or name in FLOATS or name == 'bytes'
    if not known:
        return ('bad', 'unknown-name')
    if length is None:
        return ('stretchy', 8 if name == 'bytes' else 1)
    if name == 'bytes':
        return ('fix', length * 8, False)
    if not length_legal(name, length):
        return ('bad', 'illegal-length')
    return ('fix', length, False)


def length_legal(name, n):
    if name in BYTEMULT:
        return n % 8 == 0
    if name in HEXN:
        return n % 4 == 0
    if name in OCTN:
        return n % 3 == 0
    if name in FLOATS:
        return n in (16, 32, 64)
    return True


def golomb_len(B, p, code):
    """Reference length of the exp-Golomb codeword starting at B[p]: (n, None), or (None, where) when the data
    ends inside the codeword: where in 'prefix' (ran out looking for the terminating 1), 'suffix' (inside the
    payload bits), 'last' (exactly one bit short)."""
    L = len(B)
    if code in ('ue', 'se'):
        q = p
        while q < L and B[q] == '0':
            q += 1
        if q >= L:
            return None, 'prefix'
        n = 2 * (q - p) + 1
        if p + n > L:
            return None, ('last' if p + n == L + 1 else 'suffix')
        return n, None
    q = p
    pairs = 0
    while True:
        if q >= L:
            return None, 'prefix'
        if B[q] == '1':
            q += 1
            break
        if q + 1 >= L:
            return None, 'suffix'
        q += 2
        pairs += 1
    if code == 'sie' and pairs:
        if q >= L:
            return None, 'last'
        q += 1
    return q - p, None


def ue_bits(v):
    b = format(v + 1, 'b')
    return '0' * (len(b) - 1) + b


def uie_bits(v):
    b = format(v + 1, 'b')
    return ''.join('0' + c for c in b[1:]) + '1'


def golomb_bits(code, v):
    if code == 'ue':
        return ue_bits(v)
    if code == 'se':
        return ue_bits(2 * v - 1 if v > 0 else -2 * v)
    if code == 'uie':
        return uie_bits(v)
    return uie_bits(abs(v)) + ('' if v == 0 else ('1' if v < 0 else '0'))


def spell_token(name, length, sp):
    if length is None:
        return f' {name} ' if sp == 'ws' else name
    if sp == 'plain':
        return f'{name}{length}'
    if sp == 'ws':
        return f' {name} : {length} '
    return f'{name}:{length}'


def struct_flat(endian, codes):
    """'<', '2Hb' -> [(name, bits)...] by the documented struct-code table."""
    out = []
    num = ''
    for c in codes:
        if c.isdigit():
            num += c
            continue
        nm, n = STRUCT_CODES[c]
        if n > 8:
            nm = nm + ENDIAN[endian]
        out.extend([(nm, n)] * (int(num) if num else 1))
        num = ''
    return out


def pos_bucket(p, L):
    if p == 0:
        return 'start'
    if p == L:
        return 'end'
    return 'aligned' if p % 8 == 0 else 'mid'


def len_bucket(L):
    return 0 if L == 0 else (1 if L < 8 else (8 if L < 64 else 64))



def model_find(B, pat, start, end, ba, rev):
    """First (last) position of pat lying wholly inside [start, end) of the bit string B; () if none; False if the range is invalid."""
    L = len(B)
    s_ = 0 if start is None else (start + L if start < 0 else start)
    e_ = L if end is None else (end + L if end < 0 else end)
    if not 0 <= s_ <= e_ <= L or not pat:
        return False
    hits = []
    i = B.find(pat, s_, e_)
    while i != -1:
        if not ba or i % 8 == 0:
            hits.append(i)
            if not rev:
                break
        i = B.find(pat, i + 1, e_)
    if not hits:
        return ()
    return (hits[-1],) if rev else (hits[0],)


class EStream(Engine):
    prop = 'C06'
    name = 'E-STREAM'
    level = 'exploration'
    fault_kinds = ('trunc', 'option', 'cache_clear', 'lsb0_blip')
    mutating_kinds = ('read', 'readlist', 'readto', 'seek', 'bytealign', 'find', 'mut', 'propset', 'trunc')
    rule = ('seeded runs: one stream (class x build route x content kind x initial pos drawn per run, swarm subset of '
            'event families per run) receives 30/60 state-aware events (arguments biased to the remaining length, to '
            'codeword boundaries and to 0 / len / len+1). A run is non-trivial if it contains at least one event that moves '
            'pos or changes the content (read, readlist, readto, seek, bytealign, find, mutator, property assignment, '
            'truncation) AND at least one fault / reconfiguration event (truncation of the data under the reader = EOF '
            'inside a codeword or field, bytealigned option toggle, cache clear). distinct = distinct event-list digest.')
    stub_components = ['SimFS (scratch directory of real files under /dev/shm, real mmap) for the file build route']
    assumptions = ['msb0 only (exp-Golomb codes do not exist in lsb0); lsb0 is C12',
                   'values returned by reads are compared with the library\'s own whole-value interpretation of the '
                   'same bits (C02/C10/C11 own the meaning of bits)',
                   'content effect of BitStream mutators is taken from a twin BitArray receiving the same call (C03)',
                   'internal exception classes escaping from mutators / operators are probes here (C20 owns them); '
                   'from the stream API proper (read, peek, readlist, peeklist, readto, pos, bytealign, find) they are incidents']
    expected_probes = ('read hit a codeword cut inside its zero prefix', 'read hit a codeword cut inside its suffix',
                       'read hit a codeword cut on its last bit', 'read exactly to the end', 'read overran by one bit',
                       'short fixed field after truncation', 'readlist with stretchy token',
                       'readlist failed after consuming items', 'pos reset by length-changing mutator',
                       'pos kept by length-preserving mutator', 'find moved pos', 'rfind moved pos',
                       'find not found kept pos', 'readto found', 'readto not found', 'bytealign past the end',
                       'property assignment on positioned stream', 'new object from positioned stream',
                       'eq/hash against other position', 'cache_clear between reads', 'file-backed stream',
                       'slice-built stream', 'bytealigned option on', 'big file-backed stream')

    QUICK = (42000, 30)
    THOROUGH = (560000, 60)

    # -------------------------------------------------------------------------------------------------
    def plan(self, tier, base_seed):
        descs = self.seeded_plan(tier, base_seed, quick=self.QUICK, thorough=self.THOROUGH)
        # a few streams over a file of a little more than 2 MiB with a marker across every power-of-two byte boundary from 4 KiB up
        # (whatever piece size a reader of mapped files works in, some marker straddles two pieces)
        nbig = 16 if tier == 'quick' else 320
        step = max(1, len(descs) // nbig)
        for j in range(nbig):
            d = dict(descs[min(j * step, len(descs) - 1)])
            d['seed'] = d['seed'] + 500_000_000
            d['big'] = True
            d['n'] = 28
            descs.insert(min(j * step, len(descs)), d)
        return descs

    FAMILIES = ('read', 'readlist', 'readto', 'seek', 'bytealign', 'find', 'mut', 'propset', 'new', 'eq', 'query',
                'trunc', 'option', 'cache')

    BIG_SIZE = (1 << 21) + 4096 + 3

    @staticmethod
    def big_markers():
        return [((1 << k) - 2, bytes([0xA5, k, 0x5A, 0xC3])) for k in range(12, 22)]

    def config(self, g, desc):
        if desc.get('big'):
            return {'cls': g.pick(CLASSES), 'route': 'file', 'big': True, 'bits': '', 'p0': 0, 'p0via': 'prop', 'pre': '', 'post': '',
                    'fam': {'find': 1}, 'ba': g.chance(0.3), 'avoid': False, 'n': desc.get('n', 16)}
        cls = g.pick(CLASSES)
        route = g.wpick([('mem', 5), ('file', 2), ('slice', 2), ('bytes', 1), ('auto', 1)])
        kind = g.wpick([('random', 5), ('golomb', 3), ('sparse', 2)])
        if kind == 'golomb':
            parts = []
            for _ in range(g.int(1, 8)):
                code = g.pick(VAR)
                v = g.wpick([(0, 2), (g.int(1, 6), 4), (g.int(7, 300), 2), (g.int(300, 70000), 1)])
                if code in ('se', 'sie') and g.chance(0.5):
                    v = -v
                parts.append(golomb_bits(code, v))
            bits = ''.join(parts) + g.bits(g.int(0, 9))
        elif kind == 'sparse':
            n = g.length(120)
            bits = ''.join('1' if g.chance(0.12) else '0' for _ in range(n))
        else:
            bits = g.bits(g.wpick([(g.length(40), 4), (g.int(40, 200), 3), (g.pick([64, 65, 128, 256]), 1)]))
        if route == 'file':
            bits = bits + '0' * ((-len(bits)) % 8) if g.chance(0.5) else bits[:len(bits) - len(bits) % 8]
        L = len(bits)
        p0 = g.wpick([(0, 3), (L, 1), (g.int(0, L), 4)])
        fam = {}
        for f in self.FAMILIES:
            if f == 'read' or g.chance(0.75):
                fam[f] = g.pick([1, 2, 4])
        if cls == 'ConstBitStream':
            fam.pop('mut', None)
            fam.pop('propset', None)
        return {'cls': cls, 'route': route, 'bits': bits, 'p0': p0, 'p0via': g.pick(['ctor', 'prop', 'ctorneg']),
                'pre': g.bits(g.int(0, 9)), 'post': g.bits(g.int(0, 9)), 'fam': fam, 'ba': g.chance(0.15),
                'avoid': bool(desc.get('avoid')), 'n': desc.get('n', 30)}

    # -------------------------------------------------------------------------------------------------
    def start(self, cfg):
        self.R = loader.main()
        self.R.reset()
        self.Bm = self.R.pkg
        self.cfg = cfg
        self.fs = None
        self.pending = []
        self.init_incs = []
        self.cls = getattr(self.Bm, cfg['cls'] if cfg.get('cls') in CLASSES else 'ConstBitStream')
        self.mutable = self.cls.__name__ == 'BitStream'
        bits = cfg.get('bits', '')
        if not isinstance(bits, str) or set(bits) - {'0', '1'}:
            bits = ''
        if cfg.get('big'):
            data = bytearray(self.BIG_SIZE)
            for at, m in self.big_markers():
                data[at:at + 4] = m
            bits = ''.join(format(b, '08b') for b in bytes(data))
            self.probe('big file-backed stream')
        self.B = bits
        L = len(bits)
        p0 = cfg.get('p0', 0)
        p0 = p0 if isinstance(p0, int) and 0 <= p0 <= L else 0
        self.p = p0
        via = cfg.get('p0via', 'prop')
        kw = {}
        if via == 'ctor':
            kw['pos'] = p0
        elif via == 'ctorneg' and p0 < L:
            kw['pos'] = p0 - L
        route = cfg.get('route') if cfg.get('route') in ROUTES else 'mem'
        C = self.cls
        if route == 'file' and L % 8 == 0:
            self.fs = SimFS()
            path = self.fs.new_file(bits_to_bytes(bits))
            st, s = call(C, filename=path, **kw)
            self.probe('file-backed stream')
        elif route == 'slice':
            pre, post = cfg.get('pre', ''), cfg.get('post', '')
            st, big = call(C, bin=pre + bits + post)
            if st == 'ok':
                big.pos = len(big)
                st, s = call(lambda: big[len(pre):len(pre) + L])
                if st == 'ok' and s.pos != 0:
                    self.init_incs.append(self.inc('new|slice|new-object-pos-nonzero', pos=s.pos))
                if st == 'ok' and kw:
                    st2, _ = call(setattr, s, 'pos', p0)
                self.probe('slice-built stream')
            else:
                s = big
        elif route == 'bytes':
            st, s = call(C, bytes=bits_to_bytes(bits), length=L, **kw)
        elif route == 'auto' and L:
            st, s = call(C, '0b' + bits, **kw)
        else:
            st, s = call(C, bin=bits, **kw)
        if st != 'ok':
            self.init_incs.append(self.inc('init|route=' + route + '|raised:' + kernel.exc_name(s), via=via))
            s = C(bin=bits)
            s.pos = p0
        elif not kw or route == 'slice':
            s.pos = p0
        self.s = s
        self.Bm.options.bytealigned = bool(cfg.get('ba'))
        if cfg.get('ba'):
            self.probe('bytealigned option on')
        self._post(self.init_incs, 'init', 'route=' + route, (p0,))
        self.state(self.cls.__name__, len_bucket(L), pos_bucket(self.p, L), bool(cfg.get('ba')))
        return {'cls': self.cls.__name__, 'len': L, 'pos': self.p}

    def cleanup(self):
        try:
            self.R.reset_options()
        except Exception:
            pass
        self.s = None
        if getattr(self, 'fs', None):
            self.fs.close()
            self.fs = None

    def finish(self):
        incs = list(self.init_incs)
        self.init_incs = []
        self._post(incs, 'finish', '-', (self.p,))
        return incs

    # -------------------------------------------------------------------------------------------------
    # lock-step helpers
    # -------------------------------------------------------------------------------------------------
    def _rebuild(self):
        s = self.cls(bin=self.B)
        s.pos = self.p
        self.s = s

    def _post(self, incs, op, trig, accept, adopt_any_valid=False):
        """Compare the stream with the machine: content, range of pos, pos among the accepted values.  Resynchronise."""
        s = self.s
        bad = False
        st, b = call(lambda: s.bin)
        st2, L = call(len, s)
        pos = (kernel.get_pos(s) if kernel.is_stream(s) else None)
        if st != 'ok' or b != self.B or st2 != 'ok' or L != len(self.B):
            incs.append(self.inc(f'{op}|{trig}|content-mismatch', want=self.B[:300], got=canon(b) if st != 'ok' else b[:300]))
            bad = True
        if not isinstance(pos, int) or not 0 <= pos <= len(self.B):
            incs.append(self.inc(f'{op}|{trig}|pos-out-of-range', pos=canon(pos), len=len(self.B), model_pos=list(accept)))
            bad = True
            self.p = accept[0] if 0 <= accept[0] <= len(self.B) else 0
        elif pos in accept or adopt_any_valid:
            self.p = pos
        else:
            incs.append(self.inc(f'{op}|{trig}|pos-mismatch', pos=pos, len=len(self.B), model_pos=list(accept)))
            bad = True
            self.p = accept[0] if 0 <= accept[0] <= len(self.B) else 0
        if bad:
            self._rebuild()
        return not bad

    def _exc_check(self, incs, op, trig, e, accept):
        """An exception was expected: class must be among accept (names looked up in the MRO)."""
        if exc_is(e, *accept):
            return True
        nm = kernel.exc_name(e)
        if exc_is(e, *INTERNAL) and not exc_is(e, 'ValueError', 'IndexError', 'TypeError'):
            incs.append(self.inc(f'{op}|{trig}|raised:{nm}', msg=str(e)[:200], expected=list(accept)))
        else:
            incs.append(self.inc(f'{op}|{trig}|wrong-exception:{nm}', msg=str(e)[:200], expected=list(accept)))
        return False

    def _note_state(self, kind, outcome):
        L = len(self.B)
        pb = pos_bucket(self.p, L)
        self.state(self.cls.__name__, len_bucket(L), pb, bool(self.Bm.options.bytealigned))
        self.transition(kind, outcome, pb)

    def _interp(self, name, length, scale, chunk):
        """The library's own whole-value interpretation of chunk: ('ok', value) | ('exc', e)."""
        bits = self.Bm.Bits(bin=chunk)
        if scale is not None:
            return call(lambda: self.Bm.Dtype(name, length, scale=scale).parse(bits))
        return call(getattr, bits, name)

    def _same_value(self, got, exp, chunk):
        """got (from the stream) equals exp (whole-value interpretation)."""
        if kernel.is_bits(exp):
            return (kernel.is_bits(got) and call(lambda: got.bin) == ('ok', chunk if not kernel.is_bits(exp) else exp.bin))
        if type(got) is not type(exp):
            return False
        return canon(got) == canon(exp)

    # -------------------------------------------------------------------------------------------------
    # the reference machine for reads
    # -------------------------------------------------------------------------------------------------
    def _expect_elem(self, m, q, dry=False, stretch_to=None, inlist=False):
        """What reading one element at position q must do.  m is a flat element description:
        {'kind':'int','n'} | {'kind':'tok','name','len','scale','neg'} | {'kind':'raw'}.
        -> {'out':'ok','n','val','fam','skip'} | {'out':'raise','accept','trig'}"""
        B = self.B
        L = len(B)
        r = L - q
        if m['kind'] == 'raw':
            return {'out': 'raise', 'accept': ('ValueError',), 'trig': 'bad-token'}
        if m['kind'] == 'int':
            n = m['n']
            if n < 0:
                return {'out': 'raise', 'accept': ('ValueError',), 'trig': T_NEG_LIST if inlist else 'negative-count'}
            if n > r:
                return {'out': 'raise', 'accept': ('ReadError',), 'trig': 'overrun', 'short': n - r}
            return {'out': 'ok', 'n': n, 'val': None if dry else self.Bm.Bits(bin=B[q:q + n]), 'fam': 'count', 'skip': False}
        name, length, scale = m['name'], m['len'], m.get('scale')
        if length is not None and length < 0:
            neg = m.get('neg')
            if neg == 'kw':
                return {'out': 'raise', 'accept': ('ValueError',), 'trig': T_NEG_KW}
            if neg == 'dtype':
                return {'out': 'raise', 'accept': ('ValueError',), 'trig': T_NEG_DT}
            return {'out': 'raise', 'accept': ('ValueError',), 'trig': 'bad-token'}
        plan = token_plan(name, length)
        if plan[0] == 'bad':
            return {'out': 'raise', 'accept': ('ValueError',), 'trig': 'bad-token'}
        fam = 'fixed'
        if plan[0] == 'var':
            n, where = golomb_len(B, q, name)
            if n is None:
                return {'out': 'raise', 'accept': ('ReadError',), 'trig': 'truncated-code', 'where': where, 'atend': r == 0}
            fam = 'golomb'
        elif plan[0] == 'stretchy':
            n = r if stretch_to is None else stretch_to
            if n % plan[1]:
                return {'out': 'raise', 'accept': ('ValueError',), 'trig': 'stretchy-not-multiple'}
            if not length_legal(name, n):
                return {'out': 'raise', 'accept': ('ValueError',), 'trig': 'stretchy-illegal-length'}
            length = n // plan[1]
            fam = 'stretchy'
        else:
            n = plan[1]
            if plan[2]:
                fam = 'single-length'
                length = None if scale is not None else length
            if n > r:
                return {'out': 'raise', 'accept': ('ReadError',), 'trig': T_SINGLE_END if plan[2] else 'overrun', 'short': n - r}
        if dry:
            return {'out': 'ok', 'n': n, 'val': None, 'fam': fam, 'skip': name == 'pad'}
        st, v = self._interp(name, length, scale, B[q:q + n])
        if st != 'ok':
            # the bits have no whole-value interpretation (zero-length integer ...): a read cannot succeed
            return {'out': 'raise', 'accept': ('ValueError', 'IndexError', 'TypeError'), 'trig': 'uninterpretable'}
        return {'out': 'ok', 'n': n, 'val': v, 'fam': fam, 'skip': v is None}

    def _expect_list(self, metas, q0, dry=False):
        """readlist = the sequence of single reads, one stretchy token taking what the later fixed tokens leave.
        -> {'out':'ok','n','vals','stretchy'} | {'out':'raise','accept','trig','consumed'} plus 'trigs' (all tags met)."""
        L = len(self.B)
        trigs = []
        static = None
        plans = []
        for m in metas:
            if m['kind'] == 'raw':
                plans.append(('bad',))
                static = static or 'bad-token'
            elif m['kind'] == 'int':
                if m['n'] < 0:
                    trigs.append(T_NEG_LIST)
                plans.append(('fix', m['n'], False))
            elif m['len'] is not None and m['len'] < 0:
                t = {'kw': T_NEG_KW, 'dtype': T_NEG_DT}.get(m.get('neg'), 'bad-token')
                trigs.append(t)
                plans.append(('neg',))
                if t == 'bad-token':           # 'uint:-8' as a string is simply not a token
                    static = static or 'bad-token'
            else:
                pl = token_plan(m['name'], m['len'])
                plans.append(pl)
                if pl[0] == 'bad':
                    static = static or 'bad-token'
        negs = [t for t in trigs if t in (T_NEG_LIST, T_NEG_KW, T_NEG_DT)]
        nstretch = sum(1 for pl in plans if pl[0] == 'stretchy')
        seen = False
        after = 0
        var_after = False
        for pl in plans:
            if pl[0] == 'stretchy':
                seen = True
            elif seen:
                if pl[0] == 'var':
                    var_after = True
                elif pl[0] == 'fix':
                    after += max(pl[1], 0)
        fixed_total = sum(max(pl[1], 0) for pl in plans if pl[0] == 'fix')
        overall_short = fixed_total > L - q0
        accept = []
        trig = None
        if negs:
            accept.append('ValueError')
            trig = negs[0]
        if static:
            accept.append('ValueError')
            trig = trig or static
        if nstretch > 1:
            accept += ['Error', 'ValueError']
            trig = trig or 'two-stretchy'
        if var_after:
            accept += ['Error', 'ValueError']
            trig = trig or 'golomb-after-stretchy'
        q = q0
        vals = []
        consumed = 0
        fail = None
        fams = []
        for m, pl in zip(metas, plans):
            if pl[0] in ('bad', 'neg') or (m['kind'] == 'int' and m['n'] < 0):
                break
            if accept and pl[0] == 'stretchy':
                break
            st_to = max(L - q - after, 0) if pl[0] == 'stretchy' else None
            e = self._expect_elem(m, q, dry=dry, stretch_to=st_to, inlist=True)
            if e['out'] != 'ok':
                fail = e
                break
            fams.append(e['fam'])
            if not e['skip']:
                vals.append((e['val'], self.B[q:q + e['n']]))
            q += e['n']
            consumed += 1
        if fail is not None:
            trigs.append(fail['trig'])
            accept += list(fail['accept'])
            if fail['trig'] != T_SINGLE_END or not trig:
                trig = trig or fail['trig']
        if accept:
            if overall_short and 'ReadError' not in accept:
                accept.append('ReadError')
            return {'out': 'raise', 'accept': tuple(accept), 'trig': trig, 'consumed': consumed, 'trigs': trigs,
                    'fail': fail, 'stretchy': nstretch}
        return {'out': 'ok', 'n': q - q0, 'vals': vals, 'trigs': trigs, 'stretchy': nstretch, 'fams': fams}

    # -------------------------------------------------------------------------------------------------
    # token rendering: event description -> (python object handed to the library, flat element description)
    # -------------------------------------------------------------------------------------------------
    def _tok_obj(self, t, allow_obj=True):
        """-> (fmt object or None if a Dtype could not be built, meta, ctor exception or None)"""
        k = t.get('t')
        if k == 'int':
            n = t.get('n', 0)
            n = n if isinstance(n, int) and not isinstance(n, bool) else 0
            return n, {'kind': 'int', 'n': n}, None
        if k == 'raw':
            return str(t.get('s', '')), {'kind': 'raw'}, None
        name = str(t.get('name', 'uint'))
        length = t.get('len')
        length = length if isinstance(length, int) and not isinstance(length, bool) else None
        sp = t.get('sp', 'colon')
        scale = t.get('scale') if sp == 'dtypes' else None
        if t.get('kw'):
            return f"{name}:{t['kw']}", {'kind': 'tok', 'name': name, 'len': length, 'scale': None, 'neg': 'kw'}, None
        if sp in OBJ_SPELL and allow_obj:
            D = self.Bm.Dtype
            if sp == 'dtype' and (length is None or length >= 0):
                st, d = call(D, spell_token(name, length, 'plain'))
            elif sp == 'dtypes' and scale is not None:
                st, d = call(D, name, length, scale=scale)
            else:
                st, d = call(D, name, length)
            meta = {'kind': 'tok', 'name': name, 'len': length, 'scale': scale, 'neg': 'dtype', 'obj': True}
            if st != 'ok':
                return None, meta, d
            return d, meta, None
        if sp in OBJ_SPELL:
            sp = 'colon'
        return spell_token(name, length, sp), {'kind': 'tok', 'name': name, 'len': length, 'scale': None, 'neg': None,
                                               'ws': sp == 'ws'}, None

    def _item_render(self, it, as_str):
        """One readlist item -> (piece, [metas], ctor_exc).  piece is a str, an int or a Dtype."""
        k = it.get('t')
        mult = it.get('mult')
        mult = mult if isinstance(mult, int) and 0 <= mult <= 4 else None
        if k == 'group':
            sub_items = it.get('items') if isinstance(it.get('items'), list) else []
            subs = [self._item_render(x, True) for x in sub_items if isinstance(x, dict) and x.get('t') in ('tok', 'int', 'struct')]
            inner = ', '.join(str(s[0]) for s in subs)
            metas = [mm for s in subs for mm in s[1]]
            m = mult if mult is not None else 2
            return f'{m}*({inner})', metas * m, None
        if k == 'struct':
            e = it.get('e', '<')
            codes = ''.join(c for c in str(it.get('codes', 'H')) if c in STRUCT_CODES or c.isdigit())
            if e not in ENDIAN or not codes or codes[-1].isdigit():
                e, codes = '<', 'H'
            metas = [{'kind': 'tok', 'name': nm, 'len': n, 'scale': None, 'neg': None} for nm, n in struct_flat(e, codes)]
            s = e + codes
            if mult is not None:
                return f'{mult}*{s}', metas * mult, None
            return s, metas, None
        if k == 'int':
            obj, meta, _ = self._tok_obj(it)
            if as_str or mult is not None:
                if mult is not None:
                    return f'{mult}*{obj}', [meta] * mult, None
                return str(obj), [meta], None
            return obj, [meta], None
        if k == 'raw':
            return str(it.get('s', '')), [{'kind': 'raw'}], None
        obj, meta, exc = self._tok_obj(it, allow_obj=not as_str and mult is None)
        if mult is not None and isinstance(obj, str):
            return f'{mult}*{obj.strip()}', [meta] * mult, None
        return obj, [meta], exc

    def _list_render(self, ev):
        items = ev.get('items') if isinstance(ev.get('items'), list) else []
        items = [x for x in items if isinstance(x, dict)]
        how = ev.get('as', 'list')
        kw = ev.get('kw') if isinstance(ev.get('kw'), dict) else {}
        kw = {str(k): v for k, v in sorted(kw.items()) if isinstance(v, int) and not isinstance(v, bool)}
        pieces, metas, exc = [], [], None
        for it in items:
            if it.get('kw') and it['kw'] in kw:
                it = dict(it)
                it['len'] = kw[it['kw']]
            elif it.get('kw'):
                it = {'t': 'raw', 's': f"{it.get('name', 'uint')}:{it['kw']}"}
            pc, ms, e = self._item_render(it, how == 'str')
            exc = exc or e
            pieces.append(pc)
            metas.extend(ms)
        if how == 'str':
            fmt = ', '.join(str(pc) for pc in pieces)
        elif how == 'mixed':
            fmt = []
            i = 0
            while i < len(pieces):
                if i + 1 < len(pieces) and isinstance(pieces[i], str) and isinstance(pieces[i + 1], str):
                    fmt.append(pieces[i] + ',' + pieces[i + 1])
                    i += 2
                else:
                    fmt.append(pieces[i])
                    i += 1
        else:
            fmt = pieces
        return fmt, metas, kw, exc

    # -------------------------------------------------------------------------------------------------
    # apply
    # -------------------------------------------------------------------------------------------------
    def apply(self, ev):
        incs = []
        if self.init_incs:
            incs.extend(self.init_incs)
            self.init_incs = []
        k = ev.get('k')
        fn = getattr(self, 'ev_' + str(k), None)
        if fn is None:
            return {'skip': str(k)}, incs
        obs, more = fn(ev)
        incs.extend(more)
        obs = dict(obs)
        obs['pos'] = self.p
        obs['len'] = len(self.B)
        return obs, incs

    def _value_incident(self, incs, op, fam, got, exp, chunk):
        if kernel.is_bits(exp):
            ok = kernel.is_bits(got) and call(lambda: got.bin) == ('ok', exp.bin)
            if not ok:
                incs.append(self.inc(f'{op}|{fam}|wrong-return', got=canon(got), want=chunk[:200]))
                return
            if kernel.is_stream(got):
                if got is self.s:
                    incs.append(self.inc(f'{op}|{fam}|returned-self'))
                elif kernel.get_pos(got) != 0:
                    incs.append(self.inc(f'{op}|{fam}|new-object-pos-nonzero', pos=kernel.get_pos(got)))
            return
        if type(got) is not type(exp) or canon(got) != canon(exp):
            incs.append(self.inc(f'{op}|{fam}|wrong-return', got=canon(got), want=canon(exp), bits=chunk[:200]))

    def ev_read(self, ev):
        incs = []
        peek = bool(ev.get('peek'))
        op = 'peek' if peek else 'read'
        tok = ev.get('tok') if isinstance(ev.get('tok'), dict) else {'t': 'int', 'n': 0}
        fmt, meta, cexc = self._tok_obj(tok)
        p, L = self.p, len(self.B)
        if fmt is None:
            # the Dtype object itself could not be built: a rejected call, nothing may have changed
            if exc_is(cexc, *INTERNAL) and not exc_is(cexc, 'ValueError', 'TypeError'):
                self.probe('monitor:Dtype-ctor-raised:' + kernel.exc_name(cexc))
            self._post(incs, op, 'dtype-ctor-rejected', (p,))
            return {'st': 'dtype-rejected'}, incs
        e = self._expect_elem(meta, p)
        s = self.s
        st, val = call(s.peek if peek else s.read, fmt)
        # a length-less token given as a Dtype object, or spelled with surrounding white space, is read to the end like
        # its plain string spelling (readlist always did; read() refused it with an internal TypeError until /repo 'fix:'
        # removed the difference - the former relaxation is gone)
        stretchy_obj = False
        if e['out'] == 'ok':
            fam = e['fam']
            n = e['n']
            if stretchy_obj and st != 'ok' and exc_is(val, 'TypeError', 'ValueError'):
                self.probe('relaxation: length-less Dtype object / spaced token refused by read')
                self._post(incs, op, 'stretchy-refused', (p,))
                self._note_state(op, 'exc')
                return {'st': st, 'v': kernel.exc_name(val)}, incs
            if st == 'ok':
                self._value_incident(incs, op, fam, val, e['val'], self.B[p:p + n])
                self._post(incs, op, fam, (p,) if peek else (p + n,))
                if p + n == L and n:
                    self.probe('read exactly to the end')
                if fam == 'golomb':
                    self.probe('golomb code read')
            else:
                if exc_is(val, *INTERNAL) and not exc_is(val, 'ValueError', 'IndexError', 'TypeError'):
                    incs.append(self.inc(f'{op}|{fam}|raised:{kernel.exc_name(val)}', msg=str(val)[:200]))
                else:
                    incs.append(self.inc(f'{op}|{fam}|raised-on-valid-read', exc=kernel.exc_name(val), msg=str(val)[:200]))
                self._post(incs, op, fam + '-failed', (p,))
        else:
            trig = e['trig']
            accept = e['accept']
            if stretchy_obj:
                accept = accept + ('TypeError', 'ValueError')
            if st == 'ok':
                disc = 'not-rejected' if trig in (T_NEG_DT, T_NEG_KW, T_NEG_LIST) else 'should-raise'
                incs.append(self.inc(f'{op}|{trig}|{disc}', got=canon(val), expected=list(accept)))
                self._post(incs, op, trig, (p,), adopt_any_valid=True)
            else:
                if trig in (T_NEG_DT, T_NEG_KW, T_NEG_LIST) and not exc_is(val, *accept):
                    incs.append(self.inc(f'{op}|{trig}|not-rejected', exc=kernel.exc_name(val), msg=str(val)[:200]))
                else:
                    self._exc_check(incs, op, trig, val, accept)
                self._post(incs, op, trig, (p,))
            if trig == 'truncated-code':
                self.fault('truncated_code')
                if e.get('atend'):
                    self.probe('golomb read at the very end')
                else:
                    self.probe({'prefix': 'read hit a codeword cut inside its zero prefix',
                                'suffix': 'read hit a codeword cut inside its suffix',
                                'last': 'read hit a codeword cut on its last bit'}[e['where']])
            elif trig in ('overrun', T_SINGLE_END):
                self.fault('eof_overrun')
                if e.get('short') == 1:
                    self.probe('read overran by one bit')
                if ev.get('after_trunc'):
                    self.probe('short fixed field after truncation')
                if trig == T_SINGLE_END:
                    self.probe('single-length dtype read at the end')
            elif trig == 'negative-count':
                self.probe('negative count')
        self._note_state(op, e['out'] if st == 'ok' else 'exc')
        return {'st': st, 'v': canon(val) if st == 'ok' else kernel.exc_name(val)}, incs

    def ev_readlist(self, ev):
        incs = []
        peek = bool(ev.get('peek'))
        op = 'peeklist' if peek else 'readlist'
        fmt, metas, kw, cexc = self._list_render(ev)
        p, L = self.p, len(self.B)
        if cexc is not None:
            self._post(incs, op, 'dtype-ctor-rejected', (p,))
            return {'st': 'dtype-rejected'}, incs
        e = self._expect_list(metas, p)
        s = self.s
        st, val = call(s.peeklist if peek else s.readlist, fmt, **kw)
        if e['stretchy']:
            self.probe('readlist with stretchy token' if e['stretchy'] == 1 else 'readlist with two stretchy tokens')
        if e['out'] == 'ok':
            fam = 'stretchy' if e['stretchy'] else 'fixed'
            if 'golomb' in e['fams']:
                fam = 'golomb' if not e['stretchy'] else 'golomb+stretchy'
            if st == 'ok':
                if not isinstance(val, list) or len(val) != len(e['vals']):
                    incs.append(self.inc(f'{op}|{fam}|wrong-return', got=canon(val), want_items=len(e['vals'])))
                else:
                    for got, (exp, chunk) in zip(val, e['vals']):
                        self._value_incident(incs, op, fam, got, exp, chunk)
                self._post(incs, op, fam, (p,) if peek else (p + e['n'],))
                if p + e['n'] == L and e['n']:
                    self.probe('read exactly to the end')
            else:
                if exc_is(val, *INTERNAL) and not exc_is(val, 'ValueError', 'IndexError', 'TypeError'):
                    incs.append(self.inc(f'{op}|{fam}|raised:{kernel.exc_name(val)}', msg=str(val)[:200]))
                else:
                    incs.append(self.inc(f'{op}|{fam}|raised-on-valid-read', exc=kernel.exc_name(val), msg=str(val)[:200]))
                self._post(incs, op, fam + '-failed', (p,))
        else:
            trig = e['trig']
            neg = trig in (T_NEG_DT, T_NEG_KW, T_NEG_LIST)
            if st == 'ok':
                incs.append(self.inc(f"{op}|{trig}|{'not-rejected' if neg else 'should-raise'}", got=canon(val), expected=list(e['accept'])))
                self._post(incs, op, trig, (p,), adopt_any_valid=True)
            else:
                if neg and not exc_is(val, *e['accept']):
                    incs.append(self.inc(f'{op}|{trig}|not-rejected', exc=kernel.exc_name(val), msg=str(val)[:200]))
                else:
                    self._exc_check(incs, op, trig, val, e['accept'])
                self._post(incs, op, trig, (p,))
            if e['consumed'] and e.get('fail') is not None:
                self.probe('readlist failed after consuming items')
            f = e.get('fail')
            if f is not None and f['trig'] == 'truncated-code':
                self.fault('truncated_code')
            elif f is not None and f['trig'] in ('overrun', T_SINGLE_END):
                self.fault('eof_overrun')
            if T_NEG_LIST in e['trigs']:
                self.probe('negative count in list')
        self._note_state(op, e['out'] if st == 'ok' else 'exc')
        return {'st': st, 'v': canon(val) if st == 'ok' else kernel.exc_name(val)}, incs

    # ---- operands -------------------------------------------------------------------------------------
    def _operand(self, d, twin=None):
        """Operand description -> object for the stream call (and for the twin).  {'b': bits, 'as': 'str'|'bits'|'stream'|'self'}"""
        if not isinstance(d, dict):
            d = {'b': ''}
        bits = d.get('b', '')
        bits = bits if isinstance(bits, str) and not (set(bits) - {'0', '1'}) else ''
        how = d.get('as', 'str')
        if how == 'self':
            return self.s, (twin if twin is not None else self.s), len(self.B)
        if how == 'bits':
            o = self.Bm.Bits(bin=bits)
        elif how == 'stream':
            o = self.cls(bin=bits)
            if bits:
                o.pos = len(bits) // 2
        else:
            o = ('0b' + bits) if bits else ''
        return o, o, len(bits)

    def ev_readto(self, ev):
        incs = []
        p, L, B = self.p, len(self.B), self.B
        ba = ev.get('ba')
        ba = ba if ba in (None, True, False) else None
        if ev.get('int') is not None:
            arg, blen, trig = ev['int'] if isinstance(ev['int'], int) else 1, None, 'int-arg'
        else:
            arg, _, blen = self._operand(ev.get('bs'))
            if arg is self.s:
                arg, blen = self.Bm.Bits(bin=B), L
            trig = 'empty' if blen == 0 else None
        kw = {} if ba is None else {'bytealigned': ba}
        eff = bool(self.Bm.options.bytealigned) if ba is None else bool(ba)
        s = self.s
        st, val = call(s.readto, arg, **kw)
        if trig is not None:
            if st == 'ok':
                incs.append(self.inc(f'readto|{trig}|should-raise', got=canon(val)))
                self._post(incs, 'readto', trig, (p,), adopt_any_valid=True)
            else:
                self._exc_check(incs, 'readto', trig, val, ('ValueError', 'TypeError') if trig == 'int-arg' else ('ValueError',))
                self._post(incs, 'readto', trig, (p,))
        else:
            ref = call(self.Bm.Bits(bin=B).find, arg, p, bytealigned=eff)
            al = '-bytealigned' if eff else ''
            pat = kernel.safe_bin(arg) if kernel.is_bits(arg) else (arg[2:] if isinstance(arg, str) and arg.startswith('0b') else None)
            if pat and len(B) <= 4096 and ref[0] == 'ok' and not self.Bm.options.lsb0:
                want = model_find(B, pat, p, None, eff, False)
                if want is not False and canon(ref[1]) != canon(want):
                    incs.append(self.inc(f'readto|reference-search{al}|not-the-match-in-range', got=canon(ref[1]), want=canon(want), start=p))
            if ref[0] == 'ok' and ref[1]:
                m = ref[1][0]
                trig = 'found' + al
                if st != 'ok':
                    incs.append(self.inc(f'readto|{trig}|raised-on-valid-read', exc=kernel.exc_name(val), msg=str(val)[:200]))
                    self._post(incs, 'readto', trig + '-failed', (p,))
                else:
                    self._value_incident(incs, 'readto', trig, val, self.Bm.Bits(bin=B[p:m + blen]), B[p:m + blen])
                    self._post(incs, 'readto', trig, (m + blen,))
                    self.probe('readto found')
            else:
                trig = 'not-found' + al
                if st == 'ok':
                    incs.append(self.inc(f'readto|{trig}|should-raise', got=canon(val)))
                    self._post(incs, 'readto', trig, (p,), adopt_any_valid=True)
                else:
                    self._exc_check(incs, 'readto', trig, val, ('ReadError',))
                    self._post(incs, 'readto', trig, (p,))
                    self.probe('readto not found')
        self._note_state('readto', st)
        return {'st': st, 'v': canon(val) if st == 'ok' else kernel.exc_name(val)}, incs

    def ev_seek(self, ev):
        incs = []
        attr = ev.get('attr') if ev.get('attr') in ('pos', 'bitpos', 'bytepos') else 'pos'
        v = ev.get('v', 0)
        v = v if isinstance(v, int) and not isinstance(v, bool) else 0
        p, L = self.p, len(self.B)
        s = self.s
        if ev.get('rel'):
            if attr == 'bytepos' and p % 8:
                attr = 'pos'
            cur = p // 8 if attr == 'bytepos' else p
            v = cur + v
        target = v * 8 if attr == 'bytepos' else v
        st, val = call(setattr, s, attr, v)
        if 0 <= target <= L:
            trig = 'in-range'
            if st != 'ok':
                incs.append(self.inc(f'set-{attr}|{trig}|raised', exc=kernel.exc_name(val)))
                self._post(incs, 'set-' + attr, trig + '-failed', (p,))
            else:
                self._post(incs, 'set-' + attr, trig, (target,))
        else:
            trig = 'negative' if target < 0 else 'past-end'
            if st == 'ok':
                incs.append(self.inc(f'set-{attr}|{trig}|should-raise'))
                self._post(incs, 'set-' + attr, trig, (p,), adopt_any_valid=True)
            else:
                self._exc_check(incs, 'set-' + attr, trig, val, ('ValueError',))
                self._post(incs, 'set-' + attr, trig, (p,))
            self.probe('seek out of range refused')
        self._note_state('seek', st)
        return {'st': st}, incs

    def ev_tell(self, ev):
        incs = []
        attr = ev.get('attr') if ev.get('attr') in ('pos', 'bitpos', 'bytepos') else 'pos'
        p = self.p
        st, val = call(getattr, self.s, attr)
        if attr == 'bytepos' and p % 8:
            if st == 'ok':
                incs.append(self.inc('get-bytepos|unaligned|should-raise', got=canon(val)))
            else:
                self._exc_check(incs, 'get-bytepos', 'unaligned', val, ('ByteAlignError', 'ValueError'))
        else:
            want = p // 8 if attr == 'bytepos' else p
            if st != 'ok' or val != want or isinstance(val, bool):
                incs.append(self.inc(f'get-{attr}|-|wrong-return', got=canon(val), want=want))
        self._post(incs, 'get-' + attr, '-', (p,))
        return {'st': st, 'v': canon(val) if st == 'ok' else kernel.exc_name(val)}, incs

    def ev_bytealign(self, ev):
        incs = []
        p, L = self.p, len(self.B)
        skip = (-p) % 8
        st, val = call(self.s.bytealign)
        if p + skip <= L:
            if st != 'ok':
                incs.append(self.inc('bytealign|in-range|raised', exc=kernel.exc_name(val)))
                self._post(incs, 'bytealign', 'in-range-failed', (p,))
            else:
                if val != skip or isinstance(val, bool):
                    incs.append(self.inc('bytealign|in-range|wrong-return', got=canon(val), want=skip))
                self._post(incs, 'bytealign', 'in-range', (p + skip,))
        else:
            if st == 'ok':
                incs.append(self.inc('bytealign|past-end|should-raise', got=canon(val)))
                self._post(incs, 'bytealign', 'past-end', (p,), adopt_any_valid=True)
            else:
                self._exc_check(incs, 'bytealign', 'past-end', val, ('ValueError',))
                self._post(incs, 'bytealign', 'past-end', (p,))
            self.probe('bytealign past the end')
        self._note_state('bytealign', st)
        return {'st': st, 'v': canon(val) if st == 'ok' else kernel.exc_name(val)}, incs

    def ev_find(self, ev):
        incs = []
        rev = bool(ev.get('r'))
        op = 'rfind' if rev else 'find'
        p, B = self.p, self.B
        arg, _, blen = self._operand(ev.get('bs'))
        if arg is self.s:
            arg = self.Bm.Bits(bin=B)
        a = {}
        for k in ('start', 'end'):
            if isinstance(ev.get(k), int) and not isinstance(ev.get(k), bool):
                a[k] = ev[k]
        if ev.get('ba') in (True, False):
            a['bytealigned'] = ev['ba']
        ref_obj = self.Bm.Bits(bin=B)
        ref = call(ref_obj.rfind if rev else ref_obj.find, arg, **a)
        s = self.s
        st, val = call(s.rfind if rev else s.find, arg, **a)
        trig = ('ranged' if ('start' in a or 'end' in a) else 'whole') + ('-bytealigned' if a.get('bytealigned', bool(self.Bm.options.bytealigned)) else '')
        if ref[0] != 'ok':
            trig = 'rejected-' + ('empty' if blen == 0 else 'range')
            if st == 'ok':
                incs.append(self.inc(f'{op}|{trig}|should-raise', got=canon(val)))
                self._post(incs, op, trig, (p,), adopt_any_valid=True)
            else:
                self._exc_check(incs, op, trig, val, ('ValueError', 'IndexError', 'TypeError'))
                self._post(incs, op, trig, (p,))
        elif st != 'ok':
            incs.append(self.inc(f'{op}|{trig}|raised', exc=kernel.exc_name(val), msg=str(val)[:200]))
            self._post(incs, op, trig + '-failed', (p,))
        else:
            if canon(val) != canon(ref[1]) or not isinstance(val, tuple):
                incs.append(self.inc(f'{op}|{trig}|wrong-return', got=canon(val), want=canon(ref[1])))
            # "to the match": the reference search itself is held against the model's own bit string (short streams only)
            pat = kernel.safe_bin(arg) if kernel.is_bits(arg) else (arg[2:] if isinstance(arg, str) and arg.startswith('0b') else None)
            if pat and len(B) <= 4096 and not self.Bm.options.lsb0:
                want = model_find(B, pat, a.get('start'), a.get('end'), a.get('bytealigned', bool(self.Bm.options.bytealigned)), rev)
                if want is not False and canon(ref[1]) != canon(want):
                    incs.append(self.inc(f'{op}|{trig}|not-the-match-in-range', got=canon(ref[1]), want=canon(want), start=a.get('start'), end=a.get('end')))
            if ref[1]:
                self._post(incs, op, trig + '-found', (ref[1][0],))
                if ref[1][0] != p:
                    self.probe('rfind moved pos' if rev else 'find moved pos')
            else:
                self._post(incs, op, trig + '-not-found', (p,))
                self.probe('find not found kept pos')
        self._note_state(op, st)
        return {'st': st, 'v': canon(val) if st == 'ok' else kernel.exc_name(val)}, incs

    def ev_option(self, ev):
        incs = []
        v = bool(ev.get('ba'))
        self.Bm.options.bytealigned = v
        if v:
            self.probe('bytealigned option on')
        self._post(incs, 'option', 'bytealigned', (self.p,))
        return {'ba': v}, incs

    def ev_lsb0_blip(self, ev):
        """options.lsb0 on, one read of an exp-Golomb token (refused in that mode: nothing moves), options.lsb0 off again: the
        stream - and whatever the package remembers about the token - is as if the option had never been touched."""
        incs = []
        name = ev.get('name') if ev.get('name') in VAR else 'ue'
        sp, how = ev.get('sp'), ev.get('how')
        D = self.Bm.Dtype
        self.Bm.options.lsb0 = True
        try:
            if sp == 'dtypes':
                st, fmt = call(D, name, None, scale=ev.get('scale') if ev.get('scale') in (2, 3) else 2)
            elif sp == 'dtype':
                st, fmt = call(D, name)
            else:
                st, fmt = 'ok', name
            if st == 'ok':
                s = self.s
                fn = {'peek': s.peek, 'readlist': s.readlist, 'peeklist': s.peeklist}.get(how, s.read)
                st, val = call(fn, [fmt] if how in ('readlist', 'peeklist') else fmt)
            else:
                val = fmt
        finally:
            self.Bm.options.lsb0 = False
        self.fault('lsb0_blip')
        if st == 'ok':
            # not refused: what such a read means in lsb0 is outside C06 - put the position back and carry on
            self.probe('golomb read under lsb0 not refused')
            kernel.set_pos(self.s, self.p)
        elif exc_is(val, *INTERNAL) and not exc_is(val, 'ValueError', 'IndexError', 'TypeError'):
            incs.append(self.inc(f'lsb0_blip|golomb|raised:{kernel.exc_name(val)}', msg=str(val)[:200]))
        self._post(incs, 'lsb0_blip', 'golomb-refused', (self.p,))
        return {'st': st}, incs

    def ev_cache_clear(self, ev):
        incs = []
        self.R.clear_caches()
        self.probe('cache_clear between reads')
        self._post(incs, 'cache_clear', '-', (self.p,))
        return {}, incs

    def ev_trunc(self, ev):
        """The data ends early: tail of a BitStream deleted / a new ConstBitStream made from a prefix of the same bits;
        then seek to the start of the field the next read is meant to hit."""
        incs = []
        p, L, B = self.p, len(self.B), self.B
        keep = ev.get('keep', L)
        keep = min(max(keep, 0), L) if isinstance(keep, int) and not isinstance(keep, bool) else L
        how = ev.get('how', 'slice')
        if self.mutable and how != 'ctor':
            st, val = call(self.s.__delitem__, slice(keep, None))
            self.B = B[:keep]
            if st != 'ok':
                incs.append(self.inc('del|tail|raised', exc=kernel.exc_name(val)))
                self._post(incs, 'del', 'tail-failed', (p,))
            else:
                self._post(incs, 'del', 'tail', (0,) if keep != L else (p,))
                if keep != L and p:
                    self.probe('pos reset by length-changing mutator')
        elif how == 'ctor':
            self.B = B[:keep]
            self.s = self.cls(bytes=bits_to_bytes(B), length=keep)
            self._post(incs, 'new', 'ctor-prefix', (0,))
        else:
            st, val = call(lambda: self.s[:keep])
            self.B = B[:keep]
            if st != 'ok' or not kernel.is_stream(val):
                incs.append(self.inc('new|slice-prefix|raised', exc=canon(val)))
                self.p = 0
                self._rebuild()
            else:
                self.s = val
                self._post(incs, 'new', 'slice-prefix', (0,))
        seek = ev.get('seek', 0)
        seek = min(max(seek, 0), keep) if isinstance(seek, int) and not isinstance(seek, bool) else 0
        st, val = call(setattr, self.s, 'pos', seek)
        if st != 'ok':
            incs.append(self.inc('set-pos|in-range|raised', exc=kernel.exc_name(val)))
        self._post(incs, 'set-pos', 'in-range', (seek,))
        self.fault('truncation')
        self._note_state('trunc', 'ok')
        return {'keep': keep, 'seek': seek}, incs

    # ---- BitStream mutators ------------------------------------------------------------------------------
    MUT_OPS = ('append', 'iadd', 'prepend', 'insert', 'overwrite', 'del', 'setitem', 'replace', 'reverse', 'rol', 'ror',
               'set', 'invert', 'byteswap', 'ilshift', 'irshift', 'imul', 'iand', 'ior', 'ixor', 'clear')

    @staticmethod
    def _int(v, default=None):
        return v if isinstance(v, int) and not isinstance(v, bool) else default

    def _key(self, k):
        if isinstance(k, dict) and 'sl' in k and isinstance(k['sl'], list) and len(k['sl']) == 3:
            a, b, c = (self._int(x) for x in k['sl'])
            return slice(a, b, c if c != 0 else None)
        if isinstance(k, dict) and 'i' in k:
            return self._int(k['i'], 0)
        return 0

    def _mut_call(self, obj, ev, operand, operand2, is_stream):
        op = ev.get('op')
        I = self._int
        start, end = I(ev.get('start')), I(ev.get('end'))
        if op == 'append':
            obj.append(operand)
        elif op == 'iadd':
            return operator.iadd(obj, operand)
        elif op == 'prepend':
            obj.prepend(operand)
        elif op in ('insert', 'overwrite'):
            pos = I(ev.get('pos'))
            if pos is None and is_stream:
                getattr(obj, op)(operand)
            else:
                getattr(obj, op)(operand, self._p_before if pos is None else pos)
        elif op == 'del':
            del obj[self._key(ev.get('key'))]
        elif op == 'setitem':
            v = ev.get('value')
            obj[self._key(ev.get('key'))] = I(v) if I(v) is not None else operand
        elif op == 'replace':
            ba = ev.get('ba') if ev.get('ba') in (True, False) else None
            return obj.replace(operand, operand2, start, end, I(ev.get('count')), ba)
        elif op == 'reverse':
            obj.reverse(start, end)
        elif op in ('rol', 'ror'):
            getattr(obj, op)(I(ev.get('n'), 1), start, end)
        elif op in ('set', 'invert'):
            pos = ev.get('pos')
            if isinstance(pos, list):
                pos = [I(x, 0) for x in pos][:40]
            else:
                pos = I(pos)
            if op == 'set':
                obj.set(bool(ev.get('v', 1)), pos)
            else:
                obj.invert(pos)
        elif op == 'byteswap':
            fmt = ev.get('fmt')
            if isinstance(fmt, list):
                fmt = [I(x, 1) for x in fmt][:8]
            elif not isinstance(fmt, str):
                fmt = I(fmt)
            return obj.byteswap(fmt, start, end, bool(ev.get('repeat', True)))
        elif op == 'ilshift':
            return operator.ilshift(obj, I(ev.get('n'), 1))
        elif op == 'irshift':
            return operator.irshift(obj, I(ev.get('n'), 1))
        elif op == 'imul':
            n = I(ev.get('n'), 1)
            if n > 4 or n * len(self.B) > 4000:
                n = 1
            return operator.imul(obj, n)
        elif op == 'iand':
            return operator.iand(obj, operand)
        elif op == 'ior':
            return operator.ior(obj, operand)
        elif op == 'ixor':
            return operator.ixor(obj, operand)
        elif op == 'clear':
            obj.clear()
        return None

    def ev_mut(self, ev):
        incs = []
        op = ev.get('op')
        if not self.mutable or op not in self.MUT_OPS:
            return {'skip': 'not a BitStream / unknown op'}, incs
        p, B = self.p, self.B
        L0 = len(B)
        self._p_before = p
        twin = self.Bm.BitArray(bin=B)
        o_s, o_t, blen = self._operand(ev.get('bs'), twin)
        o2_s, o2_t, _ = self._operand(ev.get('bs2'), twin)
        s = self.s
        st, val = call(self._mut_call, s, ev, o_s, o2_s, True)
        tst, tval = call(self._mut_call, twin, ev, o_t, o2_t, False)
        if st == 'ok' and op in ('iadd', 'ilshift', 'irshift', 'imul', 'iand', 'ior', 'ixor') and kernel.is_stream(val) and val is not s:
            incs.append(self.inc(f'{op}|-|in-place-operator-returned-new-object'))
        if st != 'ok' and exc_is(val, *INTERNAL) and not exc_is(val, 'ValueError', 'IndexError', 'TypeError'):
            self.probe('monitor:mutator-raised:' + kernel.exc_name(val))
        self_op = isinstance(ev.get('bs'), dict) and ev['bs'].get('as') == 'self'
        trig = 'self-operand' if self_op else '-'
        cst, cur = call(lambda: s.bin)
        if (st == 'ok') != (tst == 'ok'):
            # stream and twin BitArray disagree on whether the call is valid: content is C03/C08's business
            self.probe('monitor:twin-outcome-differs')
            self.B = cur if cst == 'ok' else B
        else:
            self.B = kernel.safe_bin(twin)
        L1 = len(self.B)
        I = self._int
        if st != 'ok':
            accept = (p,)
            trig = trig if trig != '-' else 'rejected'
        elif op in ('append', 'iadd'):
            accept = (L1,) if blen else (L1, p)
            trig = trig if blen else 'empty-operand'
        elif op == 'prepend':
            accept = (0,) if blen else (0, p)
            trig = trig if blen else 'empty-operand'
        elif op in ('insert', 'overwrite'):
            if blen == 0:
                accept = (p,)
                trig = 'empty-operand'
            else:
                ipos = I(ev.get('pos'))
                trig = ('default-pos' if ipos is None else 'explicit-pos') + ('' if trig == '-' else '-' + trig)
                ipos = p if ipos is None else ipos
                if ipos < 0:
                    ipos += L0
                accept = (ipos + blen,)
        elif op in ('del', 'setitem', 'replace'):
            accept = (0,) if L1 != L0 else (p,)
            trig = 'length-changed' if L1 != L0 else 'length-kept'
        elif op == 'clear':
            accept = (0,)
        elif op == 'imul':
            n = I(ev.get('n'), 1)
            if L1 == L0:
                accept = (p,)
                trig = 'length-kept'
            elif n <= 0 or L1 == 0:
                accept = (0,)
                trig = 'times-zero'
            else:
                accept = (p, 0)      # statement: unchanged; documentation (bitstream.rst): any other length change resets
                trig = 'length-grown'
        else:
            accept = (p,)
        if st == 'ok' and cst == 'ok' and cur != self.B:
            # reported by _post as content-mismatch
            pass
        ok = self._post(incs, op, trig, accept)
        if ok and st == 'ok':
            if L1 != L0 and p and self.p == 0 and op in ('del', 'setitem', 'replace', 'prepend', 'clear'):
                self.probe('pos reset by length-changing mutator')
            if L1 == L0 and p and self.p == p:
                self.probe('pos kept by length-preserving mutator')
        self._note_state('mut:' + op, st)
        return {'st': st, 'v': canon(val) if st == 'ok' and not kernel.is_stream(val) else (None if st == 'ok' else kernel.exc_name(val))}, incs

    # ---- property assignment -----------------------------------------------------------------------------
    @staticmethod
    def _prop_value(v):
        if isinstance(v, dict):
            if 'by' in v:
                try:
                    return bytes.fromhex(v['by'])
                except Exception:
                    return b''
            if 'f' in v:
                try:
                    return float(v['f'])
                except Exception:
                    return 0.0
        return v

    def ev_propset(self, ev):
        incs = []
        if not self.mutable:
            return {'skip': 'not a BitStream'}, incs
        attr = str(ev.get('attr', 'uint'))
        if attr in ('pos', 'bitpos', 'bytepos') or attr.startswith('_'):
            return {'skip': 'not a value property'}, incs
        v = self._prop_value(ev.get('v'))
        p, B = self.p, self.B
        twin = self.Bm.BitArray(bin=B)
        s = self.s
        st, val = call(setattr, s, attr, v)
        tst, tval = call(setattr, twin, attr, v)
        if st != 'ok' and exc_is(val, *INTERNAL) and not exc_is(val, 'ValueError', 'IndexError', 'TypeError'):
            self.probe('monitor:mutator-raised:' + kernel.exc_name(val))
        cst, cur = call(lambda: s.bin)
        if (st == 'ok') != (tst == 'ok'):
            self.probe('monitor:twin-outcome-differs')
            self.B = cur if cst == 'ok' else B
        else:
            self.B = kernel.safe_bin(twin)
        L1 = len(self.B)
        if st != 'ok':
            self._post(incs, 'propset', 'rejected', (p,))
        elif p > L1:
            # nothing the statement's table says can hold here except the invariant itself: any valid pos is accepted
            self.probe('property assignment on positioned stream')
            self._post(incs, 'propset', T_PROP_BEYOND, (0,), adopt_any_valid=True)
        else:
            if p:
                self.probe('property assignment on positioned stream')
            # unchanged (statement: not in the table) or 0 (the maintainer's skipped test for bug #266 expects a reset)
            self._post(incs, 'propset', 'pos-within-new-length', (p, 0))
        self._note_state('propset', st)
        return {'st': st}, incs

    # ---- calls that return new stream objects ---------------------------------------------------------------
    NEW_OPS = ('copy', 'copy.copy', 'deepcopy', 'pickle', 'slice', 'add', 'radd', 'and', 'or', 'xor', 'invert', 'lshift', 'rshift', 'mul',
               'rmul', 'cut', 'split', 'join', 'unpack', 'ctor', 'bits')

    def _new_call(self, obj, ev, operand):
        op = ev.get('op')
        I = self._int
        start, end = I(ev.get('start')), I(ev.get('end'))
        n = I(ev.get('n'), 1)
        if op == 'copy':
            return obj.copy()
        if op == 'copy.copy':
            return _copy.copy(obj)
        if op == 'deepcopy':
            return _copy.deepcopy([obj, obj])[1]
        if op == 'pickle':
            import pickle as _pickle
            return _pickle.loads(_pickle.dumps(obj))
        if op == 'slice':
            return obj[self._key(ev.get('key') if isinstance(ev.get('key'), dict) and 'sl' in ev['key'] else {'sl': [None, None, None]})]
        if op == 'add':
            return obj + operand
        if op == 'radd':
            return operand + obj
        if op == 'and':
            return obj & operand
        if op == 'or':
            return obj | operand
        if op == 'xor':
            return obj ^ operand
        if op == 'invert':
            return ~obj
        if op == 'lshift':
            return obj << n
        if op == 'rshift':
            return obj >> n
        if op in ('mul', 'rmul'):
            if n > 4 or n * len(self.B) > 4000:
                n = 1
            return obj * n if op == 'mul' else n * obj
        if op == 'cut':
            return list(obj.cut(max(n, 1) if ev.get('clamp', True) else n, start, end, I(ev.get('count'))))[:400]
        if op == 'split':
            return list(obj.split(operand, start, end, I(ev.get('count'))))[:400]
        if op == 'join':
            return obj.join([operand, obj, operand])
        if op == 'unpack':
            return obj.unpack(str(ev.get('fmt', 'bits')))
        if op == 'ctor':
            return type(obj)(obj)
        if op == 'bits':
            return obj.bits
        return None

    def ev_new(self, ev):
        incs = []
        op = ev.get('op')
        if op not in self.NEW_OPS:
            return {'skip': 'unknown op'}, incs
        p, B = self.p, self.B
        s = self.s
        ref_obj = self.cls(bin=B)            # same class, same content, pos 0: the only difference is pos
        o_s, o_r, blen = self._operand(ev.get('bs'), ref_obj)
        self_op = o_s is s
        st, val = call(self._new_call, s, ev, o_s)
        rst, rval = call(self._new_call, ref_obj, ev, o_r)
        trig = 'self-operand' if self_op else '-'
        if self_op and not self.mutable and op in ('and', 'or'):
            trig = T_SELF_CONST
        if st != 'ok' and exc_is(val, *INTERNAL) and not exc_is(val, 'ValueError', 'IndexError', 'TypeError'):
            self.probe('monitor:operator-raised:' + kernel.exc_name(val))
        if (st == 'ok') != (rst == 'ok'):
            incs.append(self.inc(f'{op}|{trig}|outcome-depends-on-pos', at_pos=st, at_zero=rst,
                                 exc=kernel.exc_name(val if st != 'ok' else rval)))
        elif st == 'ok':
            cv, cr = canon(val), canon(rval)
            # results are compared without their pos (checked separately below)
            def strip(x):
                if isinstance(x, dict):
                    return {k: strip(v) for k, v in x.items() if k != 'pos'}
                if isinstance(x, list):
                    return [strip(i) for i in x]
                return x
            if strip(cv) != strip(cr):
                incs.append(self.inc(f'{op}|{trig}|result-depends-on-pos', at_pos=strip(cv), at_zero=strip(cr)))
            objs = val if isinstance(val, list) else [val]
            for o in objs:
                if kernel.is_stream(o) and kernel.is_bits(o):
                    if o is s:
                        self.probe('call returned the stream itself')
                    elif kernel.get_pos(o) != 0 and op not in ('deepcopy', 'pickle'):
                        # (a deep copy / unpickled stream may keep the position or start at 0: both are met in legitimate code)
                        incs.append(self.inc(f'{op}|{trig}|new-object-pos-nonzero', pos=kernel.get_pos(o)))
                        break
            if op in ('copy', 'copy.copy', 'deepcopy', 'pickle') and self.mutable and kernel.is_bits(val) and val is not s:
                # the copy is cut short and extended in place: the stream it was made from stays as it is (content, pos <= len)
                call(lambda: val.__delitem__(slice(len(val) // 3, None)))
                call(val.append, '0b1')
                self.probe('copy of the stream mutated afterwards')
            if p:
                self.probe('new object from positioned stream')
        self._post(incs, op, trig, (p,))
        self._note_state('new:' + str(op), st)
        return {'st': st, 'v': canon(val) if st == 'ok' else kernel.exc_name(val)}, incs

    def ev_eq(self, ev):
        incs = []
        p, B = self.p, self.B
        L = len(B)
        q = self._int(ev.get('other_pos'), 0)
        q = min(max(q, 0), L)
        t = self.cls(bin=B)
        t.pos = q
        s = self.s
        trig = 'other-pos'
        res = [call(operator.eq, s, t), call(operator.eq, t, s), call(operator.ne, s, t),
               call(operator.eq, s, self.Bm.Bits(bin=B)), call(operator.eq, self.Bm.Bits(bin=B), s)]
        if res != [('ok', True), ('ok', True), ('ok', False), ('ok', True), ('ok', True)]:
            incs.append(self.inc(f'eq|{trig}|equal-content-compares-unequal', results=[canon(r[1]) for r in res], pos=p, other=q))
        flip = self._int(ev.get('flip'))
        if L and flip is not None:
            i = flip % L
            B2 = B[:i] + ('1' if B[i] == '0' else '0') + B[i + 1:]
            t2 = self.cls(bin=B2)
            t2.pos = p
            r2 = [call(operator.eq, s, t2), call(operator.ne, s, t2)]
            if r2 != [('ok', False), ('ok', True)]:
                incs.append(self.inc('eq|same-pos-different-content|wrong-return', results=[canon(r[1]) for r in r2]))
        if not self.mutable:
            h1, h2, h3 = call(hash, s), call(hash, t), call(hash, self.cls(bin=B))
            if h1[0] != 'ok' or h2[0] != 'ok' or h1[1] != h2[1] or h3 != h1:
                incs.append(self.inc(f'hash|{trig}|hash-depends-on-pos', st=[h1[0], h2[0], h3[0]]))
        if kernel.get_pos(t) != q:
            incs.append(self.inc(f'eq|{trig}|operand-pos-moved', pos=kernel.get_pos(t), want=q))
        if p != q:
            self.probe('eq/hash against other position')
        self._post(incs, 'eq', trig, (p,))
        return {'eq': canon(res[0][1])}, incs

    QUERY_OPS = ('count1', 'count0', 'len', 'all', 'any', 'startswith', 'endswith', 'tobytes', 'bin', 'hex', 'uint',
                 'int', 'str', 'findall', 'contains', 'getitem', 'iter', 'bool', 'tobitarray', 'unpack', 'bytes', 'pp')

    def _query_call(self, obj, ev, operand):
        op = ev.get('op')
        I = self._int
        if op == 'count1':
            return obj.count(1)
        if op == 'count0':
            return obj.count(0)
        if op == 'len':
            return len(obj)
        if op in ('all', 'any'):
            pos = ev.get('pos')
            pos = [I(x, 0) for x in pos][:20] if isinstance(pos, list) else None
            return getattr(obj, op)(bool(ev.get('v', 1)), pos)
        if op in ('startswith', 'endswith'):
            return getattr(obj, op)(operand, I(ev.get('start')), I(ev.get('end')))
        if op == 'tobytes':
            return obj.tobytes()
        if op in ('bin', 'hex', 'uint', 'int', 'bytes'):
            return getattr(obj, op)
        if op == 'str':
            return str(obj)
        if op == 'findall':
            return list(obj.findall(operand, I(ev.get('start')), I(ev.get('end')), I(ev.get('count'))))[:400]
        if op == 'contains':
            return operand in obj
        if op == 'getitem':
            return obj[I(ev.get('i'), 0)]
        if op == 'iter':
            return list(obj)[:400]
        if op == 'bool':
            return bool(obj)
        if op == 'tobitarray':
            return obj.tobitarray()
        if op == 'unpack':
            return obj.unpack(str(ev.get('fmt', 'bin')))
        if op == 'pp':
            out = io.StringIO()
            obj.pp(stream=out)
            return out.getvalue()
        return None

    def ev_ctorpos(self, ev):
        """cls(<this content>, pos=k): k in [-len, len] gives a stream standing at k (counted from the end when negative); anything
        else is refused (CreationError) - a stream is never born with pos outside [0, len]."""
        incs = []
        C = getattr(self.Bm, ev.get('cls') if ev.get('cls') in ('ConstBitStream', 'BitStream') else 'ConstBitStream')
        k = ev.get('pos')
        if not isinstance(k, int) or isinstance(k, bool):
            return {'skip': 'pos is not an int'}, incs
        B, L, p = self.B, len(self.B), self.p
        src = ev.get('src')
        if src == 'self':
            st, x = call(lambda: C(self.s, pos=k))
        elif src == 'bytes' and L % 8 == 0:
            st, x = call(lambda: C(bytes=int(B, 2).to_bytes(L // 8, 'big') if L else b'', pos=k))
        elif src == 'str' and L:
            st, x = call(lambda: C('0b' + B, pos=k))
        else:
            st, x = call(lambda: C(bin=B, pos=k))
        valid = -L <= k <= L
        if valid:
            want = k + L if k < 0 else k
            if st != 'ok':
                incs.append(self.inc(f'ctor|pos-in-range|raised:{kernel.exc_name(x)}', pos=k, len=L, src=src))
            elif kernel.get_pos(x) != want or call(lambda: x.bin) != ('ok', B):
                incs.append(self.inc('ctor|pos-in-range|wrong-initial-pos-or-content', pos=k, len=L, got_pos=kernel.get_pos(x), want=want, src=src))
            self.probe('ctor with explicit pos')
        else:
            if st == 'ok':
                gp = kernel.get_pos(x)
                disc = 'pos-out-of-range' if not (isinstance(gp, int) and 0 <= gp <= L) else 'should-raise'
                incs.append(self.inc(f'ctor|pos-outside|{disc}', pos=k, len=L, got_pos=canon(gp), src=src))
            elif not kernel.exc_is(x, 'ValueError'):
                incs.append(self.inc(f'ctor|pos-outside|wrong-exception:{kernel.exc_name(x)}', pos=k, len=L, src=src))
            self.probe('ctor with pos out of range')
        self._post(incs, 'ctor', 'pos-keyword', (p,))
        return {'st': st}, incs

    def ev_query(self, ev):
        """pos never affects a non-stream result: the same call on an equal stream at pos 0 gives the same answer."""
        incs = []
        op = ev.get('op')
        if op not in self.QUERY_OPS:
            return {'skip': 'unknown op'}, incs
        p, B = self.p, self.B
        ref_obj = self.cls(bin=B)
        o_s, o_r, blen = self._operand(ev.get('bs'), ref_obj)
        st, val = call(self._query_call, self.s, ev, o_s)
        rst, rval = call(self._query_call, ref_obj, ev, o_r)
        if (st == 'ok') != (rst == 'ok'):
            incs.append(self.inc(f'{op}|-|outcome-depends-on-pos', at_pos=st, at_zero=rst))
        elif st == 'ok' and (canon(val) != canon(rval) or type(val) is not type(rval)):
            incs.append(self.inc(f'{op}|-|result-depends-on-pos', at_pos=canon(val), at_zero=canon(rval)))
        self._post(incs, op, 'query', (p,))
        return {'st': st, 'v': canon(val) if st == 'ok' else kernel.exc_name(val)}, incs

    # -------------------------------------------------------------------------------------------------
    # generation (the only code that draws from g); state-aware through the reference machine
    # -------------------------------------------------------------------------------------------------
    def gen(self, g):
        while self.pending:
            ev = self.pending.pop(0)
            if not (self.cfg.get('avoid') and self._hits_known(ev)):
                return ev
        for _ in range(12):
            ev = self._gen1(g)
            if not (self.cfg.get('avoid') and self._hits_known(ev)):
                return ev
        return {'k': 'tell', 'attr': 'pos'}

    def _hits_known(self, ev):
        """Would this event (in the current model state) exercise the trigger pattern of a known finding?"""
        k = ev.get('k')
        p, L = self.p, len(self.B)
        if k == 'read':
            t = ev['tok']
            if t.get('t') != 'tok':
                return False
            if t.get('len') is not None and t['len'] < 0:
                return True
            pl = token_plan(t['name'], t.get('len'))
            return pl[0] == 'fix' and pl[2] and pl[1] > L - p
        if k == 'readlist':
            _, metas, _, cexc = self._list_render(ev)
            if cexc is not None:
                return False
            e = self._expect_list(metas, p, dry=True)
            return any(t in KNOWN_TRIGGERS for t in e['trigs']) or e.get('trig') in KNOWN_TRIGGERS
        if k == 'propset':
            return p > self._prop_newlen(ev, L)
        if k == 'new':
            return (not self.mutable and ev.get('op') in ('and', 'or') and isinstance(ev.get('bs'), dict)
                    and ev['bs'].get('as') == 'self')
        if k == 'mut':
            # overwrite(s, pos != 0) of a stream with itself: pos is computed from the already grown length
            return ev.get('op') == 'overwrite' and isinstance(ev.get('bs'), dict) and ev['bs'].get('as') == 'self'
        return False

    @staticmethod
    def _prop_newlen(ev, L):
        """Smallest length the assignment can leave (prediction used only to steer avoidance runs)."""
        attr = str(ev.get('attr'))
        if attr in SINGLE:
            return SINGLE[attr]
        digits = attr[len(attr.rstrip('0123456789')):]
        if digits:
            return int(digits)
        v = ev.get('v')
        if attr in ('hex', 'h') and isinstance(v, str):
            return 4 * len(v)
        if attr in ('bin', 'b') and isinstance(v, str):
            return len(v)
        if attr in ('oct', 'o') and isinstance(v, str):
            return 3 * len(v)
        if attr == 'bytes' and isinstance(v, dict):
            return 4 * len(v.get('by', ''))
        if attr in SINGLE:
            return SINGLE[attr]
        if attr in VAR or attr == 'bits':
            return 0
        return L

    def _gen_big(self, g):
        """Searches and reads round the planted markers of the big file."""
        if not hasattr(self, 'sweep'):
            self.sweep = []
            for at, m in self.big_markers():
                mb = ''.join(format(b, '08b') for b in m)
                self.sweep.append({'k': 'seek', 'attr': 'pos', 'v': g.pick([0, 0, 8 * (at - 4096) if at > 8192 else 0])})
                self.sweep.append(g.pick([{'k': 'find', 'r': False, 'bs': {'b': g.pick([mb, mb[8:], mb[:24]]), 'as': 'str'}, 'ba': g.pick([True, True, False])},
                                          {'k': 'readto', 'bs': {'b': g.pick([mb, mb[8:], mb[:24]]), 'as': 'str'}, 'ba': g.pick([True, True, False])}]))
            self.sweep.reverse()
        if self.sweep:
            return self.sweep.pop()
        at, m = g.pick(self.big_markers())
        mb = ''.join(format(b, '08b') for b in m)
        k = g.pick(['seek', 'find', 'rfind', 'readto', 'read'])
        if k == 'seek':
            return {'k': 'seek', 'attr': 'pos', 'v': max(8 * at - g.pick([0, 8, 64, 8 * 4096, 8 * (1 << 20)]), 0)}
        if k in ('find', 'rfind'):
            return {'k': 'find', 'r': k == 'rfind', 'bs': {'b': g.pick([mb, mb[8:], mb[3:29]]), 'as': 'str'}, 'ba': g.pick([True, False])}
        if k == 'readto':
            return {'k': 'readto', 'bs': {'b': g.pick([mb, mb[8:]]), 'as': 'str'}, 'ba': g.pick([True, False])}
        return {'k': 'read', 'peek': g.chance(0.3), 'tok': {'t': 'int', 'n': g.pick([8, 32, 13])}}

    def _gen1(self, g):
        if self.cfg.get('big'):
            return self._gen_big(g)
        fam = self.cfg.get('fam') or {'read': 1}
        f = g.wpick(sorted(fam.items()))
        return getattr(self, '_g_' + f)(g)

    # ---- tokens ----
    def _g_len_for(self, g, name, r):
        """A length (in the token's unit) for a fixed token, biased to the remaining length r."""
        if name == 'bytes':
            return g.pick([0, 1, 2, r // 8, r // 8 + 1, max(r // 8 - 1, 0), g.int(0, 9)])
        step = 8 if name in BYTEMULT else (4 if name in HEXN else (3 if name in OCTN else 1))
        if name in FLOATS:
            return g.wpick([(16, 3), (32, 3), (64, 3), (g.pick([0, 8, 24, 31, 33, 128]), 1)])
        k = g.r.random()
        if k < 0.10:
            return g.pick([0, step])
        if k < 0.20 and step > 1:
            return g.pick([1, step - 1, step + 1, 2 * step + 1, 7, 9, 13])       # illegal for this name
        if k < 0.55:
            base = (r // step) * step
            return max(g.pick([base, base + step, base - step, base, base]), 0)
        if k < 0.65:
            return g.pick([63, 64, 65, 72, 128]) // step * step
        return g.int(1, max(min(r + 2, 70) // step, 1)) * step

    def _g_tok(self, g, r, allow_obj=True, small=False):
        k = g.wpick([('count', 4), ('fixed', 8), ('stretchy', 2), ('single', 3), ('golomb', 5), ('raw', 1)])
        if k == 'count':
            n = g.wpick([(0, 1), (1, 1), (r, 2), (r + 1, 2), (max(r - 1, 0), 1), (g.int(0, r + 2), 5), (-1, 1), (-g.int(1, r + 3), 1)])
            if small and n > 0:
                n = min(n, g.int(1, 12))
            return {'t': 'int', 'n': n}
        if k == 'raw':
            return {'t': 'raw', 's': g.pick(READ_JUNK)}
        sp = g.wpick([('colon', 4), ('plain', 4), ('ws', 1)] + ([('dtype', 2), ('dtype2', 2), ('dtypes', 1)] if allow_obj else []))
        if k == 'golomb':
            t = {'t': 'tok', 'name': g.pick(VAR), 'len': g.int(0, 5) if g.chance(0.04) else None, 'sp': sp}
        elif k == 'single':
            name = g.pick(SINGLE_NAMES)
            ln = g.wpick([(None, 6), (SINGLE[name], 3), (g.pick([0, 1, 8, 16, SINGLE[name] + 1]), 1)])
            t = {'t': 'tok', 'name': name, 'len': ln, 'sp': sp}
        elif k == 'stretchy':
            name = g.pick(ANYLEN + ('hex', 'oct', 'bytes', 'float', 'uintle', 'intbe', 'floatle', 'h', 'o'))
            t = {'t': 'tok', 'name': name, 'len': None, 'sp': sp}
        else:
            name = g.wpick([(g.pick(ANYLEN), 8), (g.pick(BYTEMULT), 3), (g.pick(HEXN + OCTN), 3), ('bytes', 2),
                            (g.pick(FLOATS), 2), (g.pick(['foo', 'uintx', 'len']), 0.3)])
            ln = self._g_len_for(g, name, min(r, 12) if small else r)
            t = {'t': 'tok', 'name': name, 'len': ln, 'sp': sp}
            if sp in ('dtype2', 'dtypes') and g.chance(0.05):
                t['len'] = -g.int(1, 9)
        if t['sp'] == 'dtypes':
            if t['name'] in NUMERIC:
                t['scale'] = g.pick([2, 3, -1])
            else:
                t['sp'] = 'dtype2'
        return t

    def _g_read(self, g):
        r = len(self.B) - self.p
        return {'k': 'read', 'peek': g.chance(0.3), 'tok': self._g_tok(g, r)}

    def _g_readlist(self, g):
        r = len(self.B) - self.p
        n = g.wpick([(0, 1), (1, 3), (2, 4), (3, 4), (4, 2), (5, 1)])
        how = g.wpick([('list', 4), ('str', 4), ('mixed', 2)])
        items = []
        kw = {}
        nst = g.wpick([(0, 6), (1, 4), (2, 1)])
        st_at = sorted(g.int(0, max(n - 1, 0)) for _ in range(nst)) if n else []
        for i in range(n):
            if i in st_at:
                name = g.pick(['bits', 'bin', 'uint', 'int', 'hex', 'bytes', 'pad', 'oct'])
                t = {'t': 'tok', 'name': name, 'len': None, 'sp': g.pick(['colon', 'dtype', 'dtypes'])}
                if t['sp'] == 'dtypes':
                    # a length-less Dtype object that carries a scale: the filler keeps its scale
                    if name in ('uint', 'int'):
                        t['scale'] = g.pick([2, 3, -1])
                    else:
                        t['sp'] = 'dtype2'
                items.append(t)
                continue
            k = g.wpick([('tok', 10), ('group', 1), ('struct', 1), ('kw', 2), ('raw', 0.5)])
            if k == 'tok':
                t = self._g_tok(g, max(r // max(n, 1) + 2, 3), allow_obj=(how != 'str'), small=g.chance(0.6))
                if t['t'] == 'raw':
                    t = {'t': 'raw', 's': g.pick(LIST_JUNK)}
                if t['t'] == 'tok' and t.get('len') is None and token_plan(t['name'], None)[0] == 'stretchy':
                    t['len'] = self._g_len_for(g, t['name'], 8)     # stretchy count is decided by nst only
                if t['t'] != 'raw' and g.chance(0.15):
                    t['mult'] = g.pick([0, 1, 2, 3])
                items.append(t)
            elif k == 'group':
                sub = []
                for _ in range(g.int(1, 2)):
                    name = g.pick(['uint', 'int', 'bin', 'hex', 'bool', 'pad', 'ue', 'bits'])
                    ln = None if name in ('bool', 'ue') else (4 * g.int(1, 3) if name == 'hex' else g.int(1, 9))
                    sub.append({'t': 'tok', 'name': name, 'len': ln, 'sp': g.pick(['colon', 'plain'])})
                items.append({'t': 'group', 'mult': g.pick([1, 2, 3]), 'items': sub})
            elif k == 'struct':
                items.append({'t': 'struct', 'e': g.pick(['<', '>', '@', '=']),
                              'codes': g.pick(['H', 'b', 'B', 'h', '2H', 'hb', 'L', 'q', 'e', 'f', 'd', 'bH', '3b'])})
            elif k == 'kw':
                key = g.pick(['n', 'm', 'w', 'pos'])        # (any keyword name that is not a parameter of the public method)
                name = g.pick(['uint', 'int', 'bin', 'hex', 'bits', 'pad', 'bytes'])
                if key not in kw and not g.chance(0.08):
                    v = g.wpick([(g.int(0, 12), 6), (r, 1), (r + 1, 1), (-g.int(1, 9), 0.6)])
                    kw[key] = v * 4 if name == 'hex' and v > 0 and g.chance(0.8) else v
                items.append({'t': 'tok', 'name': name, 'len': None, 'sp': 'colon', 'kw': key})
            else:
                items.append({'t': 'raw', 's': g.pick(LIST_JUNK)})
        ev = {'k': 'readlist', 'peek': g.chance(0.3), 'items': items, 'as': how}
        if kw:
            ev['kw'] = kw
        return ev

    def _g_bits_near(self, g, found_bias=0.7, maxlen=10):
        """A search pattern: usually a substring of the content (so that it is found), sometimes not."""
        B = self.B
        if B and g.chance(found_bias):
            a = g.int(0, len(B) - 1)
            return B[a:a + g.int(1, maxlen)]
        return g.bits(g.wpick([(0, 1), (g.int(1, maxlen), 6)]))

    def _g_operand(self, g, bits, allow_self=True):
        how = g.wpick([('str', 5), ('bits', 3), ('stream', 2)] + ([('self', 0.4)] if allow_self else []))
        return {'b': bits, 'as': how}

    def _g_readto(self, g):
        if g.chance(0.04):
            return {'k': 'readto', 'int': g.int(-1, 9)}
        B, p = self.B, self.p
        if len(B) - p > 0 and g.chance(0.6):
            a = g.int(p, len(B) - 1)
            bits = B[a:a + g.int(1, 9)]
        else:
            bits = self._g_bits_near(g, 0.4)
        ev = {'k': 'readto', 'bs': self._g_operand(g, bits, allow_self=False)}
        if g.chance(0.4):
            ev['ba'] = g.pick([True, False])
        return ev

    def _g_seek(self, g):
        L = len(self.B)
        if g.chance(0.25):
            return {'k': 'tell', 'attr': g.pick(['pos', 'bitpos', 'bytepos'])}
        attr = g.wpick([('pos', 5), ('bitpos', 2), ('bytepos', 3)])
        if g.chance(0.25):
            return {'k': 'seek', 'attr': attr, 'rel': True, 'v': g.pick([-9, -8, -1, 0, 1, 3, 8, 9, 64])}
        n = L // 8 if attr == 'bytepos' else L
        return {'k': 'seek', 'attr': attr, 'v': g.wpick([(g.int(0, n), 6), (n, 1), (n + 1, 1), (-1, 1), (0, 1), (g.int(-n - 2, n + 9), 1)])}

    def _g_bytealign(self, g):
        return {'k': 'bytealign'}

    def _g_find(self, g):
        L = len(self.B)
        ev = {'k': 'find', 'r': g.chance(0.45), 'bs': self._g_operand(g, self._g_bits_near(g, 0.7, 12))}
        if g.chance(0.4):
            ev['start'] = g.pos(L)
        if g.chance(0.4):
            ev['end'] = g.pos(L)
        if g.chance(0.4):
            ev['ba'] = g.pick([True, False])
        return ev

    def _g_option(self, g):
        if g.chance(0.25):
            # the other module option, switched on for the length of one call and off again (exp-Golomb codes do not exist in lsb0)
            return {'k': 'lsb0_blip', 'name': g.pick(VAR), 'sp': g.pick(['plain', 'dtype', 'dtypes']), 'scale': g.pick([2, 3]),
                    'how': g.pick(['read', 'peek', 'readlist', 'peeklist'])}
        return {'k': 'option', 'ba': g.chance(0.6)}

    def _g_cache(self, g):
        return {'k': 'cache_clear'}

    def _g_eq(self, g):
        L = len(self.B)
        ev = {'k': 'eq', 'other_pos': g.int(0, L)}
        if g.chance(0.4):
            ev['flip'] = g.int(0, max(L - 1, 0))
        return ev

    def _g_query(self, g):
        L = len(self.B)
        op = g.pick(self.QUERY_OPS)
        ev = {'k': 'query', 'op': op}
        if op in ('startswith', 'endswith', 'findall', 'contains'):
            ev['bs'] = self._g_operand(g, self._g_bits_near(g, 0.7, 6) or '1')
            if g.chance(0.3):
                ev['start'] = g.pos(L)
            if g.chance(0.3):
                ev['end'] = g.pos(L)
        if op in ('all', 'any') and g.chance(0.5):
            ev['pos'] = [g.pos(L) for _ in range(g.int(0, 3))]
            ev['v'] = g.int(0, 1)
        if op == 'getitem':
            ev['i'] = g.pos(L)
        if op == 'unpack':
            ev['fmt'] = g.pick(['bin', 'bits', 'uint:3, bin', 'bits:2, bits', 'ue, bits', 'hex', 'pad:1, uint', 'bool, bool'])
        return ev

    def _g_new(self, g):
        L = len(self.B)
        if g.chance(0.08):
            # a new stream created with an explicit initial position (constructor keyword)
            return {'k': 'ctorpos', 'pos': g.wpick([(g.int(0, L), 4), (L, 1), (L + 1, 2), (-1, 1), (-L, 1), (-L - 1, 2), (0, 1), (g.int(-L - 3, L + 9), 2)]),
                    'src': g.pick(['bin', 'self', 'bytes', 'str']), 'cls': g.pick(['ConstBitStream', 'BitStream'])}
        op = g.pick(self.NEW_OPS)
        ev = {'k': 'new', 'op': op}
        if op == 'slice':
            ev['key'] = {'sl': [g.opt_pos(L), g.opt_pos(L), g.step()]}
        elif op in ('add', 'radd', 'join'):
            ev['bs'] = self._g_operand(g, g.bits(g.length(12)), allow_self=(op != 'join'))
            if op == 'radd' and ev['bs']['as'] == 'self':
                ev['bs']['as'] = 'str'
        elif op in ('and', 'or', 'xor'):
            ev['bs'] = self._g_operand(g, g.bits(L if g.chance(0.9) else L + 1))
            if g.chance(0.12):
                ev['bs']['as'] = 'self'
        elif op in ('lshift', 'rshift'):
            ev['n'] = g.pick([0, 1, 7, 8, L, L + 1, -1, g.int(0, L + 1)])
        elif op in ('mul', 'rmul'):
            ev['n'] = g.pick([0, 1, 2, 3, -1])
        elif op == 'cut':
            ev['n'] = g.pick([1, 3, 7, 8, 9, max(L, 1), L + 1, 0, -1])
            ev['clamp'] = not g.chance(0.1)
            if L > 300 and ev['n'] < 3:
                ev['n'] = 8
            if g.chance(0.3):
                ev['start'] = g.pos(L)
            if g.chance(0.3):
                ev['end'] = g.pos(L)
            if g.chance(0.3):
                ev['count'] = g.int(-1, 4)
        elif op == 'split':
            ev['bs'] = self._g_operand(g, self._g_bits_near(g, 0.8, 5), allow_self=False)
            if g.chance(0.3):
                ev['count'] = g.int(-1, 4)
        elif op == 'unpack':
            ev['fmt'] = g.pick(['bits', 'bits:1, bits', '3, bits', 'bits:3, uint', 'bits, bits:2'])
        return ev

    def _g_mut(self, g):
        L, p = len(self.B), self.p
        op = g.pick(self.MUT_OPS)
        ev = {'k': 'mut', 'op': op}
        rng = lambda: (ev.update(start=g.pos(L)) if g.chance(0.4) else None, ev.update(end=g.pos(L)) if g.chance(0.4) else None)
        if op in ('append', 'iadd', 'prepend'):
            ev['bs'] = self._g_operand(g, g.bits(g.length(16)))
        elif op in ('insert', 'overwrite'):
            ev['bs'] = self._g_operand(g, g.bits(g.length(16)))
            if g.chance(0.5):
                ev['pos'] = g.pos(L)
        elif op == 'del':
            ev['key'] = {'i': g.pos(L)} if g.chance(0.3) else {'sl': [g.opt_pos(L), g.opt_pos(L), g.step()]}
        elif op == 'setitem':
            if g.chance(0.3):
                ev['key'] = {'i': g.pos(L)}
                if g.chance(0.6):
                    ev['value'] = g.pick([0, 1, -1, 2])
                else:
                    ev['bs'] = self._g_operand(g, g.bits(g.pick([0, 1, 1, 2, 5])), allow_self=False)
            else:
                a, b = g.opt_pos(L), g.opt_pos(L)
                ev['key'] = {'sl': [a, b, g.step()]}
                if g.chance(0.3):
                    ev['value'] = g.pick([0, 1, -1, 5, 255])
                else:
                    width = len(self.B[slice(a, b)])
                    ev['bs'] = self._g_operand(g, g.bits(width if g.chance(0.5) else g.length(12)))
        elif op == 'replace':
            old = self._g_bits_near(g, 0.8, 6)
            ev['bs'] = self._g_operand(g, old, allow_self=False)
            ev['bs2'] = self._g_operand(g, g.bits(len(old) if g.chance(0.4) else g.length(8)))
            rng()
            if g.chance(0.3):
                ev['count'] = g.int(-1, 3)
            if g.chance(0.3):
                ev['ba'] = g.pick([True, False])
        elif op == 'reverse':
            rng()
        elif op in ('rol', 'ror'):
            ev['n'] = g.pick([0, 1, 3, 8, L, L + 1, -1])
            rng()
        elif op in ('set', 'invert'):
            ev['v'] = g.int(0, 1)
            k = g.int(0, 2)
            if k == 1:
                ev['pos'] = g.pos(L)
            elif k == 2:
                ev['pos'] = [g.pos(L) for _ in range(g.int(0, 4))]
        elif op == 'byteswap':
            ev['fmt'] = g.pick([None, 0, 1, 2, 3, -1, 'h', '<2h', 'bh', [1, 2], 'x'])
            rng()
            ev['repeat'] = g.chance(0.7)
        elif op in ('ilshift', 'irshift'):
            ev['n'] = g.pick([0, 1, 7, 8, L, L + 1, -1, g.int(0, L + 1)])
        elif op == 'imul':
            ev['n'] = g.pick([0, 1, 2, 3, -1])
        elif op in ('iand', 'ior', 'ixor'):
            ev['bs'] = self._g_operand(g, g.bits(L if g.chance(0.9) else L + 1))
        return ev

    def _g_propset(self, g):
        L = len(self.B)
        k = g.wpick([('intlen', 5), ('int', 3), ('str', 5), ('float', 2), ('bytes', 1), ('bool', 1), ('golomb', 1),
                     ('single', 1), ('bad', 0.5)])
        if k == 'intlen':
            n = g.pick([1, 4, 7, 8, 9, 12, 16, 32, 64, L if L else 8])
            nm = g.pick(['u', 'uint', 'i', 'int'])
            signed = nm in ('i', 'int')
            lo, hi = (-(1 << (n - 1)), (1 << (n - 1)) - 1) if signed else (0, (1 << n) - 1)
            v = g.wpick([(lo, 1), (hi, 1), (g.int(lo, hi), 5), (hi + 1, 0.5)])
            return {'k': 'propset', 'attr': f'{nm}{n}', 'v': v}
        if k == 'int':
            nm = g.pick(['uint', 'int', 'uintbe', 'intle', 'uintne'])
            return {'k': 'propset', 'attr': nm, 'v': g.pick([0, 1, 3, -1, 255, 1 << 70])}
        if k == 'str':
            nm = g.pick(['hex', 'bin', 'oct', 'h', 'b', 'bits'])
            n = g.wpick([(0, 1), (1, 2), (g.int(1, 12), 5), (max(L // 4, 1), 1)])
            if nm in ('hex', 'h'):
                v = ''.join(g.pick('0123456789abcdef') for _ in range(n))
            elif nm == 'oct':
                v = ''.join(g.pick('01234567') for _ in range(n))
            elif nm == 'bits':
                v = '0b' + g.bits(n) if n else ''
            else:
                v = g.bits(n)
            if g.chance(0.05):
                v = v + 'z'
            return {'k': 'propset', 'attr': nm, 'v': v}
        if k == 'float':
            return {'k': 'propset', 'attr': g.pick(['float', 'f32', 'f16', 'float64', 'floatle32', 'bfloat', 'f8']),
                    'v': {'f': g.pick(['0.0', '1.5', '-2.25', 'inf', 'nan', '1e300'])}}
        if k == 'bytes':
            return {'k': 'propset', 'attr': 'bytes', 'v': {'by': bytes(g.int(0, 255) for _ in range(g.int(0, 4))).hex()}}
        if k == 'bool':
            return {'k': 'propset', 'attr': 'bool', 'v': g.pick([True, False, 1, 0, 2])}
        if k == 'golomb':
            return {'k': 'propset', 'attr': g.pick(VAR), 'v': g.pick([0, 1, 5, 100, -3])}
        if k == 'single':
            nm = g.pick(['e2m1mxfp', 'e3m2mxfp', 'p3binary', 'p4binary', 'e4m3mxfp', 'e5m2mxfp', 'mxint', 'e8m0mxfp'])
            return {'k': 'propset', 'attr': nm, 'v': {'f': g.pick(['0.0', '1.0', '-0.5', '2.0'])}}
        return {'k': 'propset', 'attr': g.pick(['foo', 'len', 'pad', 'uint0', 'u0']), 'v': 1}

    def _g_trunc(self, g):
        """Plan a cut of the data so that the NEXT read (queued behind this event) ends inside a codeword or field."""
        B, L = self.B, len(self.B)
        how = 'del' if self.mutable and g.chance(0.8) else g.pick(['slice', 'ctor'])
        q = self.p if g.chance(0.5) else g.int(0, L)
        peek = g.chance(0.2)
        for _ in range(6):
            if g.chance(0.7):
                code = g.pick(VAR)
                n, _w = golomb_len(B, q, code)
                if n is None or n < 2:
                    q = g.int(0, L)
                    continue
                if code in ('ue', 'se'):
                    z = (n - 1) // 2
                    cuts = [('prefix', q + g.int(1, z)) if z else None, ('suffix', q + z + g.int(1, max(z - 1, 1))) if z > 1 else None,
                            ('last', q + n - 1)]
                else:
                    cuts = [('prefix', q + 2 * g.int(1, max((n - 1) // 2, 1))) if n > 2 else None,
                            ('suffix', q + 2 * g.int(0, max((n - 2) // 2, 0)) + 1), ('last', q + n - 1)]
                cuts = [c for c in cuts if c is not None and q < c[1] < q + n]
                if not cuts:
                    q = g.int(0, L)
                    continue
                keep = g.pick(cuts)[1]
                tok = {'t': 'tok', 'name': code, 'len': None, 'sp': g.pick(['colon', 'dtype'])}
                if g.chance(0.6):
                    self.pending.append({'k': 'read', 'peek': peek, 'tok': tok})
                else:
                    self.pending.append({'k': 'readlist', 'peek': peek, 'items': [tok] if g.chance(0.5) else [{'t': 'int', 'n': 0}, tok, {'t': 'int', 'n': 0}],
                                         'as': g.pick(['list', 'str'])})
                return {'k': 'trunc', 'keep': keep, 'seek': q, 'how': how}
            r = L - q
            if r < 2:
                q = g.int(0, max(L - 2, 0))
                continue
            name = g.pick(['uint', 'int', 'bin', 'bits', 'hex', 'bytes', 'uintbe', 'float', 'bool', 'bfloat', 'e2m1mxfp', 'count'])
            if name == 'count':
                n = g.int(2, r)
                tok = {'t': 'int', 'n': n}
            elif name in SINGLE:
                n = SINGLE[name]
                tok = {'t': 'tok', 'name': name, 'len': None, 'sp': 'colon'}
            else:
                ln = self._g_len_for(g, name, r)
                pl = token_plan(name, ln)
                if pl[0] != 'fix' or pl[1] < 1:
                    continue
                n = pl[1]
                tok = {'t': 'tok', 'name': name, 'len': ln, 'sp': g.pick(STR_SPELL + OBJ_SPELL[:2])}
            if n > r or n < 1:
                continue
            keep = q + g.pick([n - 1, n - 1, g.int(0, n - 1)])
            if g.chance(0.5):
                self.pending.append({'k': 'read', 'peek': peek, 'tok': tok, 'after_trunc': True})
            else:
                self.pending.append({'k': 'readlist', 'peek': peek, 'items': [{'t': 'int', 'n': 0}, tok], 'as': 'list'})
            return {'k': 'trunc', 'keep': keep, 'seek': min(q, keep), 'how': how}
        return {'k': 'trunc', 'keep': g.int(0, L), 'seek': g.int(0, L), 'how': how}

    # -------------------------------------------------------------------------------------------------
    # shrinking and the harness-free script
    # -------------------------------------------------------------------------------------------------
    def simplify(self, ev):
        out = []
        k = ev.get('k')
        if k == 'init':
            cfg = ev['cfg']
            for key, val in (('route', 'mem'), ('p0via', 'prop'), ('ba', False), ('pre', ''), ('post', ''), ('p0', 0)):
                if cfg.get(key) != val:
                    c = dict(cfg)
                    c[key] = val
                    out.append({'k': 'init', 'cfg': c})
            b = cfg.get('bits', '')
            for nb in (b[:len(b) // 2], b[len(b) // 2:], b[:-1], b[1:], b[:-8], '0' * len(b)):
                if nb != b and cfg.get('route') != 'file':
                    c = dict(cfg)
                    c['bits'] = nb
                    c['p0'] = min(cfg.get('p0', 0), len(nb))
                    out.append({'k': 'init', 'cfg': c})
            return out
        if k == 'read' and isinstance(ev.get('tok'), dict):
            t = ev['tok']
            if t.get('t') == 'tok':
                for key, val in (('sp', 'colon'), ('scale', None)):
                    if t.get(key) != val and key in t:
                        c = dict(ev)
                        c['tok'] = {kk: vv for kk, vv in t.items() if not (kk == key and val is None)}
                        if val is not None:
                            c['tok'][key] = val
                        out.append(c)
            if ev.get('peek'):
                c = dict(ev)
                c['peek'] = False
                out.append(c)
        if k == 'readlist':
            items = ev.get('items', [])
            for i in range(len(items)):
                c = dict(ev)
                c['items'] = items[:i] + items[i + 1:]
                out.append(c)
            for i, it in enumerate(items):
                if isinstance(it, dict) and it.get('mult') is not None:
                    c = dict(ev)
                    c['items'] = items[:i] + [{kk: vv for kk, vv in it.items() if kk != 'mult'}] + items[i + 1:]
                    out.append(c)
            if ev.get('as') != 'list':
                c = dict(ev)
                c['as'] = 'list'
                out.append(c)
        for key in ('start', 'end', 'ba', 'count', 'pos', 'flip', 'rel', 'after_trunc'):
            if key in ev and ev[key] is not None:
                c = {kk: vv for kk, vv in ev.items() if kk != key}
                out.append(c)
        for key in ('bs', 'bs2'):
            d = ev.get(key)
            if isinstance(d, dict):
                if d.get('as') not in ('str', 'self'):
                    c = dict(ev)
                    c[key] = {'b': d.get('b', ''), 'as': 'str'}
                    out.append(c)
                b = d.get('b', '')
                for nb in (b[:len(b) // 2], b[1:], b[:-1]):
                    if nb != b and d.get('as') != 'self':
                        c = dict(ev)
                        c[key] = {'b': nb, 'as': d.get('as', 'str')}
                        out.append(c)
        out.extend(kernel.simplify_generic(ev))
        return out

    # ---- a harness-free reproduction script for a (minimised) event list -----------------------------------
    def _r(self, o):
        """Python source for an argument object."""
        if isinstance(o, float) and (o != o or o in (float('inf'), float('-inf'))):
            return f"float('{o}')"
        if kernel.is_dtype(o):
            sc = f', scale={o.scale!r}' if o.scale is not None else ''
            return f'Dtype({o.name!r}, {o.length!r}{sc})'
        if kernel.is_bits(o):
            if o is getattr(self, 's', None):
                return 's'
            pos = f', pos={kernel.get_pos(o)}' if (kernel.get_pos(o) if kernel.is_stream(o) else 0) else ''
            return f"{type(o).__name__}(bin='{o.bin}'{pos})"
        if isinstance(o, slice):
            return f'slice({o.start!r}, {o.stop!r}, {o.step!r})'
        if isinstance(o, list):
            return '[' + ', '.join(self._r(x) for x in o) + ']'
        return repr(o)

    def _line(self, ev):
        k = ev.get('k')
        R = self._r
        I = self._int
        if k == 'read':
            fmt, _, exc = self._tok_obj(ev.get('tok') or {'t': 'int', 'n': 0})
            t = ev['tok']
            if fmt is None:
                return f"Dtype({t.get('name')!r}, {t.get('len')!r})"
            return f"s.{'peek' if ev.get('peek') else 'read'}({R(fmt)})"
        if k == 'readlist':
            fmt, _, kw, exc = self._list_render(ev)
            kws = ''.join(f', {a}={b}' for a, b in kw.items())
            return f"s.{'peeklist' if ev.get('peek') else 'readlist'}({R(fmt)}{kws})"
        if k == 'readto':
            a = R(ev['int']) if ev.get('int') is not None else R(self._operand(ev.get('bs'))[0])
            return f"s.readto({a}{'' if ev.get('ba') is None else ', bytealigned=' + repr(ev.get('ba'))})"
        if k == 'seek':
            if ev.get('rel'):
                return f"s.{ev.get('attr', 'pos')} += {I(ev.get('v'), 0)}"
            return f"s.{ev.get('attr', 'pos')} = {I(ev.get('v'), 0)}"
        if k == 'tell':
            return f"s.{ev.get('attr', 'pos')}"
        if k == 'bytealign':
            return 's.bytealign()'
        if k == 'find':
            a = [R(self._operand(ev.get('bs'))[0])] + [f'{x}={ev[x]!r}' for x in ('start', 'end') if I(ev.get(x)) is not None]
            if ev.get('ba') in (True, False):
                a.append(f"bytealigned={ev['ba']}")
            return f"s.{'rfind' if ev.get('r') else 'find'}({', '.join(a)})"
        if k == 'option':
            return f"bitstring.options.bytealigned = {bool(ev.get('ba'))}"
        if k == 'lsb0_blip':
            nm = ev.get('name')
            f = {'dtype': f'Dtype({nm!r})', 'dtypes': f"Dtype({nm!r}, None, scale={ev.get('scale')!r})"}.get(ev.get('sp'), repr(nm))
            h = ev.get('how') if ev.get('how') in ('read', 'peek', 'readlist', 'peeklist') else 'read'
            f = f'[{f}]' if h.endswith('list') else f
            return f'bitstring.options.lsb0 = True\ntry:\n    s.{h}({f})\nexcept Exception:\n    pass\nbitstring.options.lsb0 = False'
        if k == 'cache_clear':
            return '# (every lru_cache of the package cleared here)'
        if k == 'trunc':
            keep, seek = ev.get('keep'), ev.get('seek')
            if self.cfg.get('cls') == 'BitStream' and ev.get('how') != 'ctor':
                return f'del s[{keep}:]; s.pos = min({seek}, len(s))'
            return f's = s[:{keep}]; s.pos = min({seek}, len(s))'
        if k == 'propset':
            return f"s.{ev.get('attr')} = {R(self._prop_value(ev.get('v')))}"
        if k == 'eq':
            return f"t = {self.cfg.get('cls')}(s); t.pos = {I(ev.get('other_pos'), 0)}; (s == t, {'hash(s) == hash(t)' if self.cfg.get('cls') != 'BitStream' else 't == s'})"
        if k in ('mut', 'new', 'query'):
            op = ev.get('op')
            o1 = R(self._operand(ev.get('bs'))[0]) if ev.get('bs') is not None else None
            o2 = R(self._operand(ev.get('bs2'))[0]) if ev.get('bs2') is not None else None
            se = ''.join(f', {x}={ev[x]!r}' for x in ('start', 'end', 'count') if I(ev.get(x)) is not None)
            sym = {'iadd': '+=', 'ilshift': '<<=', 'irshift': '>>=', 'imul': '*=', 'iand': '&=', 'ior': '|=', 'ixor': '^=',
                   'add': '+', 'and': '&', 'or': '|', 'xor': '^', 'lshift': '<<', 'rshift': '>>', 'mul': '*'}
            if op in sym:
                rhs = o1 if op in ('iadd', 'iand', 'ior', 'ixor', 'add', 'and', 'or', 'xor') else repr(I(ev.get('n'), 1))
                return f's {sym[op]} {rhs}'
            if op == 'radd':
                return f'{o1} + s'
            if op == 'rmul':
                return f"{I(ev.get('n'), 1)} * s"
            if op == 'invert' and k == 'new':
                return '~s'
            if op == 'del':
                return f"del s[{R(self._key(ev.get('key')))}]"
            if op in ('setitem',):
                v = I(ev.get('value'))
                return f"s[{R(self._key(ev.get('key')))}] = {o1 if v is None else v}"
            if op == 'slice':
                return f"s[{R(self._key(ev.get('key')))}]"
            if op in ('insert', 'overwrite'):
                return f"s.{op}({o1}{'' if I(ev.get('pos')) is None else ', ' + repr(ev['pos'])})"
            if op == 'replace':
                return f's.replace({o1}, {o2}{se})'
            if op in ('append', 'prepend'):
                return f's.{op}({o1})'
            if op in ('copy.copy', 'copy', 'deepcopy', 'pickle') and self.mutable:
                mk = {'copy.copy': 'copy.copy(s)', 'copy': 's.copy()', 'deepcopy': 'copy.deepcopy([s, s])[1]', 'pickle': 'pickle.loads(pickle.dumps(s))'}[op]
                return f"c = {mk}; del c[len(c) // 3:]; c.append('0b1')"
            if op == 'copy.copy':
                return 'copy.copy(s)'
            if op == 'deepcopy':
                return 'copy.deepcopy([s, s])[1]'
            if op == 'pickle':
                return 'pickle.loads(pickle.dumps(s))'
            if op == 'ctor':
                return f"{self.cfg.get('cls')}(s)"
            if op in ('rol', 'ror'):
                return f"s.{op}({I(ev.get('n'), 1)}{se})"
            if op in ('set', 'invert'):
                return f"s.{op}({repr(bool(ev.get('v', 1))) + ', ' if op == 'set' else ''}{ev.get('pos')!r})"
            if op == 'byteswap':
                return f"s.byteswap({ev.get('fmt')!r}{se}, repeat={bool(ev.get('repeat', True))})"
            if op == 'cut':
                return f"list(s.cut({I(ev.get('n'), 1)}{se}))"
            if op in ('split', 'findall'):
                return f'list(s.{op}({o1}{se}))'
            if op == 'join':
                return f's.join([{o1}, s, {o1}])'
            if op == 'unpack':
                return f"s.unpack({ev.get('fmt')!r})"
            if op in ('count1', 'count0'):
                return f's.count({op[-1]})'
            if op in ('bin', 'hex', 'uint', 'int', 'bytes', 'bits'):
                return f's.{op}'
            if op in ('startswith', 'endswith'):
                return f's.{op}({o1}{se})'
            if op == 'contains':
                return f'{o1} in s'
            return f's.{op}()' if op in ('clear', 'reverse', 'copy', 'tobytes', 'tobitarray') else f'# {op} {kernel.jdump(ev)}'
        return '# ' + kernel.jdump(ev)

    def script(self, events):
        """<= 10 lines for a minimised run (one line per event); run with /venv/bin/python from any directory."""
        cfg = events[0]['cfg']
        self.rec = kernel.RunRecord()
        self.start(cfg)
        try:
            C = cfg.get('cls')
            lines = ['import bitstring, copy, pickle', 'from bitstring import *',
                     f"s = {C}(bin='{self.B}'); s.pos = {self.p}" + ("  # built from a file / slice in the run" if cfg.get('route') in ('file', 'slice') else '')]
            if cfg.get('ba'):
                lines.append('bitstring.options.bytealigned = True')
            for ev in events[1:]:
                ln = self._line(ev)
                lines.append('try: print(repr(' + ln + '))\nexcept Exception as e: print(type(e).__name__, e)'
                             if not any(x in ln for x in (' = ', ' += ', '<<=', '>>=', '*=', '&=', '|=', '^=', 'del ', '#')) or ln.startswith('t = ')
                             else 'try: ' + ln + '\nexcept Exception as e: print(type(e).__name__, e)')
                if ln.startswith('t = '):
                    lines[-1] = ln.split('; (')[0] + '; print(' + ln.split('; ')[2] + ')'
                lines.append("print('pos', s.pos, 'len', len(s))")
            return '\n'.join(lines)
        finally:
            self.cleanup()
