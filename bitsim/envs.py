"""Environment stubs the simulator owns (DESIGN 2.4).  These - and only these - are stubs; all of bitstring
runs as real code."""
from __future__ import annotations

import errno
import io
import os
import shutil
import tempfile


class InjectedIOError(OSError):
    """Writer fault injected by the simulator."""


class InjectedClosed(ValueError):
    """'I/O operation on closed file' injected by the simulator."""


class InjectedProducerFault(Exception):
    """A caller-supplied producer dies at its k-th element (S8).  Deliberately not a ValueError/TypeError:
    the library has no business catching it."""


class SimWriter:
    """The BinaryIO handed to tofile.  Records every write; executes a fault plan.

    plan: None, or {'at': k (1-based write index), 'kind': 'error'|'torn'|'closed', 'keep': n bytes kept of
    the failing chunk for 'torn'}."""

    def __init__(self, plan=None):
        self.plan = plan
        self.writes = []          # (nbytes) per attempted write
        self.durable = bytearray()
        self.failed = False
        self.writes_after_fault = 0
        self.fired = None

    def write(self, b):
        b = bytes(b)
        if self.failed:
            self.writes_after_fault += 1
            raise InjectedClosed('write after injected fault')
        self.writes.append(len(b))
        p = self.plan
        if p is not None and len(self.writes) == p['at']:
            self.failed = True
            self.fired = p['kind']
            if p['kind'] == 'closed':
                raise InjectedClosed('I/O operation on closed file.')
            if p['kind'] == 'torn':
                keep = min(p.get('keep', len(b) // 2), max(len(b) - 1, 0))
                self.durable += b[:keep]
                raise InjectedIOError(errno.ENOSPC, 'No space left on device (injected, torn write)')
            raise InjectedIOError(errno.EIO, 'Input/output error (injected)')
        self.durable += b
        return len(b)

    # enough of the BinaryIO surface
    def flush(self):
        pass

    def writable(self):
        return True


class FaultyIterable:
    """A caller's producer that raises at its k-th element (0-based: yields items[:k] then raises)."""

    def __init__(self, items, fail_at=None):
        self.items = list(items)
        self.fail_at = fail_at
        self.fired = False

    def __iter__(self):
        for i, x in enumerate(self.items):
            if self.fail_at is not None and i == self.fail_at:
                self.fired = True
                raise InjectedProducerFault(f'producer died at element {i}')
            yield x
        if self.fail_at is not None and self.fail_at >= len(self.items):
            self.fired = True
            raise InjectedProducerFault('producer died at end')


class SimFS:
    """A scratch directory of real files (real mmap).  Paths derive from a counter; the directory lives under
    /dev/shm when available (never under /repo or /verif) and is removed at the end of the run."""

    def __init__(self):
        base = '/dev/shm' if os.path.isdir('/dev/shm') and os.access('/dev/shm', os.W_OK) else None
        self.dir = tempfile.mkdtemp(prefix='bitsim-', dir=base)
        self.n = 0
        self.handles = []

    def new_file(self, data: bytes) -> str:
        self.n += 1
        p = os.path.join(self.dir, f'f{self.n}')
        with open(p, 'wb') as f:
            f.write(data)
        return p

    def open(self, path, mode='rb', **kw):
        h = open(path, mode, **kw)
        self.handles.append(h)
        return h

    def norm(self, s: str) -> str:
        """Remove the scratch path from an observation."""
        return s.replace(self.dir, '<fs>')

    def close(self):
        for h in self.handles:
            try:
                h.close()
            except Exception:
                pass
        self.handles = []
        shutil.rmtree(self.dir, ignore_errors=True)


def bits_to_bytes(bits: str) -> bytes:
    """Reference: the bits followed by 0-7 zero bits to a byte boundary (independent of the library)."""
    if not bits:
        return b''
    pad = (-len(bits)) % 8
    return int(bits + '0' * pad, 2).to_bytes((len(bits) + pad) // 8, 'big')


def bytes_to_bits(b: bytes) -> str:
    return ''.join(format(x, '08b') for x in b)
