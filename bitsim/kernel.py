"""Kernel shared by all engines: event codec, canonical observations, run loop, digests, ddmin.  DESIGN 2."""
from __future__ import annotations

import hashlib
import json
import math
import random
import signal
from collections import Counter

EVENT_TIMEOUT_S = 10


class SimTimeout(BaseException):
    """Raised by the per-event alarm.  BaseException so that library `except Exception` cannot swallow it."""


class Marker(Exception):
    """The injected fault's own exception (writer faults use OSError subclasses, see envs)."""


def jdump(x) -> str:
    return json.dumps(x, sort_keys=True, separators=(',', ':'), default=_json_default)


def _json_default(o):
    if isinstance(o, (set, frozenset)):
        return sorted(o)
    if isinstance(o, bytes):
        return {'b': o.hex()}
    return repr(o)


def digest(x) -> str:
    return hashlib.sha256(jdump(x).encode()).hexdigest()


# ---------------------------------------------------------------------------------------------------------
# canonical observations
# ---------------------------------------------------------------------------------------------------------

def _mro_names(t):
    return [c.__name__ for c in t.__mro__]


def is_bits(x) -> bool:
    return 'Bits' in _mro_names(type(x)) and type(x).__module__.startswith('bitstring')


def is_array(x) -> bool:
    return type(x).__name__ == 'Array' and type(x).__module__.startswith('bitstring')


def is_dtype(x) -> bool:
    return type(x).__name__ == 'Dtype' and type(x).__module__.startswith('bitstring')


def exc_name(e: BaseException) -> str:
    return type(e).__name__


# Exception classes a public call may legitimately raise (C20 clause 1), by class name in the MRO.
DOCUMENTED_EXC = ('ValueError', 'IndexError', 'TypeError', 'Error', 'OSError', 'EOFError')


def exc_documented(e: BaseException) -> bool:
    names = _mro_names(type(e))
    if 'Error' in names and type(e).__module__.startswith('bitstring'):
        return True
    return any(n in names for n in ('ValueError', 'IndexError', 'TypeError', 'OSError', 'EOFError'))


def exc_is(e: BaseException, *names) -> bool:
    m = _mro_names(type(e))
    return any(n in m for n in names)


def safe_bin(x):
    """bin of a bitstring via the raw bitarray (never through lsb0-sensitive or length-limited paths); if the private
    layout is not what this expects (a refactored tree), the public whole-value property is used instead."""
    try:
        st = x._bitstore
        ba = st._bitarray
        n = st.modified_length
        s = ba.to01()
        return s if n is None else s[:n]
    except AttributeError:
        return x.bin


def is_stream(x) -> bool:
    return is_bits(x) and 'ConstBitStream' in _mro_names(type(x))


def get_pos(x):
    """Bit position of a stream through the public property."""
    try:
        return x.pos
    except AttributeError:
        return None


def set_pos(x, p):
    """Seek through the public property (p is always a valid position); private fallback for a stream in a broken state."""
    try:
        x.pos = p
    except Exception:
        try:
            x._pos = p
        except Exception:
            pass


def canon(x, depth=0):
    """JSON-able canonical form of any value the library returns."""
    if x is None or isinstance(x, (bool, str)):
        return x
    if isinstance(x, int):
        return x if -2 ** 63 <= x < 2 ** 63 else {'int': hex(x)}
    if isinstance(x, float):
        if math.isnan(x):
            return {'f': 'nan'}
        return {'f': repr(x)}
    if isinstance(x, (bytes, bytearray)):
        return {'b': bytes(x).hex()}
    if isinstance(x, BaseException):
        return {'exc': exc_name(x)}
    if is_bits(x):
        d = {'c': type(x).__name__, 'bin': x.bin}
        if is_stream(x):
            d['pos'] = get_pos(x)
        return d
    if is_array(x):
        return {'A': str(x.dtype), 'bin': x.data.bin}
    if is_dtype(x):
        return {'D': repr(x), 'str': str(x), 'len': x.length, 'bl': x.bitlength,
                'scale': [type(x.scale).__name__, canon(x.scale)]}
    if type(x).__name__ == 'bitarray':
        return {'ba': x.to01()}
    if isinstance(x, (list, tuple)):
        if depth > 6:
            return '...'
        return [canon(i, depth + 1) for i in x]
    if isinstance(x, dict):
        return {str(k): canon(v, depth + 1) for k, v in sorted(x.items(), key=lambda kv: str(kv[0]))}
    if hasattr(x, '__next__'):
        out = []
        for i, item in enumerate(x):
            if i >= 5000:
                out.append('...')
                break
            out.append(canon(item, depth + 1))
        return {'gen': out}
    return {'repr': type(x).__name__}


def call(fn, *a, **k):
    """Run fn; return ('ok', value) or ('exc', exception)."""
    try:
        return 'ok', fn(*a, **k)
    except SimTimeout:
        raise
    except RecursionError as e:
        return 'exc', e
    except Exception as e:  # noqa
        return 'exc', e


# ---------------------------------------------------------------------------------------------------------
# random helpers (generation only)
# ---------------------------------------------------------------------------------------------------------

class Gen:
    """Thin wrapper round random.Random with boundary-biased helpers.  Only generation code draws from it."""

    def __init__(self, seed):
        self.r = random.Random(seed)

    def chance(self, p):
        return self.r.random() < p

    def pick(self, seq):
        return seq[self.r.randrange(len(seq))]

    def wpick(self, pairs):
        tot = sum(w for _, w in pairs)
        x = self.r.random() * tot
        for v, w in pairs:
            x -= w
            if x < 0:
                return v
        return pairs[-1][0]

    def int(self, lo, hi):
        return self.r.randint(lo, hi)

    def bits(self, n):
        if n <= 0:
            return ''
        k = self.r.random()
        if k < 0.08:
            return '0' * n
        if k < 0.16:
            return '1' * n
        if k < 0.26:
            p = self.pick(['01', '0011', '00000001', '10', '0110'])
            return (p * (n // len(p) + 1))[:n]
        return format(self.r.getrandbits(n), f'0{n}b')

    def length(self, maxlen=40):
        k = self.r.random()
        if k < 0.08:
            return 0
        if k < 0.2:
            return self.pick([1, 7, 8, 9, 15, 16, 17, 24, 31, 32, 33, 63, 64, 65])
        return self.r.randint(1, maxlen)

    def pos(self, n, slack=2):
        """A position around a sequence of length n: inside, at the ends, just beyond, negative."""
        k = self.r.random()
        if k < 0.3:
            return self.pick([-n - 1, -n, -1, 0, 1, n - 1, n, n + 1])
        if k < 0.4:
            return self.r.randint(-n - slack, -1) if n else -1
        return self.r.randint(0, n + (slack if k < 0.5 else 0))

    def opt_pos(self, n):
        return None if self.chance(0.25) else self.pos(n)

    def step(self):
        return self.wpick([(None, 4), (1, 2), (-1, 3), (2, 2), (-2, 2), (3, 1), (-3, 1), (7, 1), (-7, 1)])


# ---------------------------------------------------------------------------------------------------------
# incidents, run records
# ---------------------------------------------------------------------------------------------------------

class Incident:
    __slots__ = ('sig', 'detail', 'at')

    def __init__(self, sig, detail, at):
        self.sig = sig
        self.detail = detail
        self.at = at

    def to_json(self):
        return {'signature': self.sig, 'detail': self.detail, 'event_index': self.at}


class RunRecord:
    def __init__(self):
        self.events = []
        self.obs = []
        self.incidents = []
        self.probes = Counter()
        self.faults = Counter()
        self.states = set()
        self.transitions = set()
        self.nontrivial = False
        self.harness_error = None

    def digest(self):
        return digest([self.events, self.obs])

    def events_digest(self):
        return digest(self.events)


class alarm:
    """Per-event CPU-time guard.  A hang is an incident of the property under test, verified by fresh replay."""

    def __init__(self, seconds=EVENT_TIMEOUT_S):
        self.s = seconds

    def _h(self, *_):
        raise SimTimeout()

    # CPU time of this process, not wall-clock time: a worker that is merely descheduled on a loaded machine must not
    # look like a hang, while a genuine endless loop burns CPU and fires.
    def __enter__(self):
        self.old = signal.signal(signal.SIGPROF, self._h)
        signal.setitimer(signal.ITIMER_PROF, self.s)

    def __exit__(self, *a):
        signal.setitimer(signal.ITIMER_PROF, 0)
        signal.signal(signal.SIGPROF, self.old)
        return False


def _library_frame(ex):
    """Name of the innermost library function in the traceback of ex, or None if no library frame is involved."""
    import traceback
    from . import loader
    root = loader.ROOT + '/'
    frames = traceback.extract_tb(ex.__traceback__)
    lib = [f for f in frames if f.filename.startswith(root)]
    if not lib or not frames[-1].filename.startswith(root):
        return None
    return lib[-1].name


class Engine:
    """Base class.  An engine owns a world; `start` builds it from a JSON config (the run's first event),
    `gen` proposes the next JSON event (drawing from the Gen only), `apply` executes one event against the
    world, compares with the oracle, returns (observation, [incident...]) and RESYNCHRONISES after a
    mismatch so that the same run can continue.  `apply` is total: any event is valid in any state."""

    prop = 'C00'
    name = 'E-NONE'
    level = 'exploration'
    # event kinds that count as "fault / reconfiguration / environment" for the non-triviality rule
    fault_kinds = ()
    # event kinds that change state
    mutating_kinds = ()

    def __init__(self):
        self.rec = None

    # -- to override ---------------------------------------------------------------------------------
    def plan(self, tier, base_seed):
        """Return list of run descriptors: {'seed': int, ...cfg}."""
        raise NotImplementedError

    def config(self, g: Gen, desc) -> dict:
        """Draw the run configuration (swarm knobs, initial world). Becomes events[0] = {'init': cfg}."""
        raise NotImplementedError

    def start(self, cfg):
        raise NotImplementedError

    def gen(self, g: Gen):
        raise NotImplementedError

    def apply(self, ev):
        raise NotImplementedError

    def finish(self):
        """End-of-run checks and clean-up. Returns list of incidents."""
        return []

    def cleanup(self):
        pass

    def n_events(self, g: Gen, desc):
        return desc.get('n', 40)

    # -- helpers ---------------------------------------------------------------------------------------
    def inc(self, sig, **detail):
        return Incident(f'{self.prop}|{sig}', detail, len(self.rec.events) - 1 if self.rec else -1)

    def probe(self, name, n=1):
        self.rec.probes[name] += n

    def state(self, *t):
        """Record an abstract state (small tuple of buckets/flags) for the reach measure."""
        self.rec.states.add(jdump(t))

    def transition(self, *t):
        """Record an abstract transition (event kind, outcome class, state bucket)."""
        self.rec.transitions.add(jdump(t))

    def seeded_plan(self, tier, base_seed, quick=(4000, 30), thorough=(400000, 60)):
        """Run descriptors for a purely seeded engine: (number of runs, events per run) per tier.
        Every third run is an 'avoidance' run (DESIGN 5.2): its generator never emits the trigger patterns of
        known findings, so that resynchronisation after a known finding cannot hide a second bug on that path."""
        runs, n = quick if tier == 'quick' else thorough
        return [{'seed': base_seed * 1_000_003 + i, 'n': n, 'avoid': i % 3 == 2} for i in range(runs)]

    def fault(self, name, n=1):
        self.rec.faults[name] += n

    # -- driver ----------------------------------------------------------------------------------------
    def _step(self, ev):
        rec = self.rec
        rec.events.append(ev)
        try:
            with alarm():
                try:
                    obs, incs = self.apply(ev)
                except SimTimeout:
                    raise
                except Exception as ex:
                    # An exception escaping from apply() is a harness failure - unless it was raised INSIDE the library by
                    # a plain, valid call the engine makes for its own bookkeeping (e.g. Bits(bin=...) to rebuild a twin):
                    # then the library is what misbehaved, and that is an incident like any other.
                    where = _library_frame(ex)
                    if where is None:
                        raise
                    obs = {'engine_helper_failed': exc_name(ex)}
                    incs = [self.inc(f'engine-helper-call|{where}|raised:{exc_name(ex)}', event=ev, message=str(ex)[:200])]
        except SimTimeout:
            obs, incs = {'hang': True}, [self.inc('hang|' + str(ev.get('op', ev.get('k', '?'))), event=ev)]
            rec.obs.append(obs)
            rec.incidents.extend(incs)
            raise
        rec.obs.append(obs)
        rec.incidents.extend(incs)
        k = ev.get('k')
        return incs

    def run(self, desc):
        """Generate and execute one run."""
        self.rec = rec = RunRecord()
        g = Gen(desc['seed'])
        try:
            cfg = self.config(g, desc)
            ev0 = {'k': 'init', 'cfg': cfg}
            rec.events.append(ev0)
            with alarm(30):
                obs0 = self.start(cfg)
            rec.obs.append(obs0)
            n = self.n_events(g, desc)
            for _ in range(n):
                ev = self.gen(g)
                if ev is None:
                    break
                self._step(ev)
            with alarm(30):
                fin = self.finish()
            rec.incidents.extend(fin)
        except SimTimeout:
            pass
        finally:
            self.cleanup()
        self._classify()
        return rec

    def replay(self, events):
        """Execute a recorded event list (events[0] must be the init event)."""
        self.rec = rec = RunRecord()
        try:
            if not events or events[0].get('k') != 'init':
                return rec
            rec.events.append(events[0])
            with alarm(30):
                obs0 = self.start(events[0]['cfg'])
            rec.obs.append(obs0)
            for ev in events[1:]:
                self._step(ev)
            with alarm(30):
                rec.incidents.extend(self.finish())
        except SimTimeout:
            pass
        finally:
            self.cleanup()
        self._classify()
        return rec

    def _classify(self):
        rec = self.rec
        ks = [e.get('k') for e in rec.events[1:]]
        rec.nontrivial = any(k in self.mutating_kinds for k in ks) and any(k in self.fault_kinds for k in ks)


# ---------------------------------------------------------------------------------------------------------
# minimisation: ddmin over the event list, then per-event simplification
# ---------------------------------------------------------------------------------------------------------

def minimise(engine_factory, events, sig, budget=400, wall_budget=90.0):
    """Shrink events (keeping events[0]) while an incident with signature `sig` still fires.
    Bounded by a number of replays and by wall-clock time (a change that makes calls slow must not stall the check)."""
    import time as _time
    calls = [0]
    t_end = _time.time() + wall_budget

    def fails(evs):
        if _time.time() > t_end and calls[0] > 0:
            calls[0] = budget + 10 ** 6      # out of time: every further candidate is "not a reproduction"
            return False
        calls[0] += 1
        try:
            rec = engine_factory().replay(evs)
        except SimTimeout:
            return False
        except Exception:
            # a candidate the engine cannot execute (a simplification that left its domain) is simply not a reproduction
            return False
        return any(i.sig == sig for i in rec.incidents)

    if not fails(events):
        return events, False
    head, body = events[:1], list(events[1:])
    # cut everything after the incident first
    rec = engine_factory().replay(events)
    ats = [i.at for i in rec.incidents if i.sig == sig]
    if not ats:
        return events, False      # fired once and not the next time: state outside the run is involved
    first = min(ats)
    if 0 < first < len(events) - 1 and fails(events[:first + 1]):
        body = list(events[1:first + 1])
    n = 2
    while len(body) >= 2 and calls[0] < budget:
        chunk = max(1, len(body) // n)
        reduced = False
        for i in range(0, len(body), chunk):
            cand = body[:i] + body[i + chunk:]
            if cand != body and fails(head + cand):
                body = cand
                n = max(n - 1, 2)
                reduced = True
                break
            if calls[0] >= budget:
                break
        if not reduced:
            if chunk == 1:
                break
            n = min(len(body), n * 2)
    # one-by-one removal pass
    i = 0
    while i < len(body) and calls[0] < budget:
        cand = body[:i] + body[i + 1:]
        if fails(head + cand):
            body = cand
        else:
            i += 1
    # per-event simplification
    eng = engine_factory()
    simplify = getattr(eng, 'simplify', None)
    if simplify is not None:
        changed = True
        while changed and calls[0] < budget:
            changed = False
            for i in range(len(body)):
                for cand_ev in simplify(body[i]):
                    if calls[0] >= budget:
                        break
                    cand = body[:i] + [cand_ev] + body[i + 1:]
                    if fails(head + cand):
                        body = cand
                        changed = True
                        break
            # also try simplifying the init config
            for cand_ev in simplify(head[0]):
                if calls[0] >= budget:
                    break
                if fails([cand_ev] + body):
                    head = [cand_ev]
                    changed = True
                    break
    # simplification can turn events into no-ops: one more removal pass
    i = 0
    while i < len(body) and calls[0] < budget + 60:
        cand = body[:i] + body[i + 1:]
        if fails(head + cand):
            body = cand
        else:
            i += 1
    return head + body, True


def simplify_generic(ev):
    """Generic per-event simplifications: shorter bit strings, ints toward 0, drop optional arguments."""
    out = []
    for k in sorted(ev):
        v = ev[k]
        if k in ('k', 'op'):
            continue
        if isinstance(v, dict) and k == 'cfg':
            for k2 in sorted(v):
                v2 = v[k2]
                for nv in _simpler(v2):
                    c = dict(ev)
                    c['cfg'] = dict(v)
                    c['cfg'][k2] = nv
                    out.append(c)
            continue
        for nv in _simpler(v):
            c = dict(ev)
            c[k] = nv
            out.append(c)
    return out


def _simpler(v):
    if isinstance(v, bool) or v is None:
        return []
    if isinstance(v, int):
        if v == 0:
            return []
        c = [0, v // 2, v - 1 if v > 0 else v + 1]
        return [x for i, x in enumerate(c) if x != v and x not in c[:i]]
    if isinstance(v, str) and v and set(v) <= {'0', '1'}:
        c = [v[:len(v) // 2], v[1:], v[:-1], '0' * len(v)]
        return [x for i, x in enumerate(c) if x != v and x not in c[:i]]
    if isinstance(v, list) and v:
        return [v[:len(v) // 2], v[1:], v[:-1]]
    return []
