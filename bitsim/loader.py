"""Import bitstring from the tree under test, once as the main instance and any number of times as private
replicas (independent Options singleton, independent caches, independent classes).  DESIGN 2.3."""
from __future__ import annotations

import array
import functools
import importlib
from collections import abc
import os
import sys

ROOT = os.path.realpath(os.environ.get('BITSIM_REPO', '/repo'))
GUARD = 'BITSTRING_VERIF'
# The guarded hook in /repo (tofile chunk size) is honoured only if the guard is in the environment at import.
os.environ.setdefault(GUARD, '1')


def _mods():
    return {k: v for k, v in sys.modules.items() if k == 'bitstring' or k.startswith('bitstring.')}


def _import_fresh():
    if not sys.path or sys.path[0] != ROOT:
        sys.path.insert(0, ROOT)
    importlib.invalidate_caches()
    m = importlib.import_module('bitstring')
    f = os.path.realpath(m.__file__)
    if not f.startswith(ROOT + os.sep):
        raise RuntimeError(f'HARNESS: bitstring imported from {f}, not from {ROOT}')
    return m


class Replica:
    """One loaded copy of the package."""

    def __init__(self, pkg, mods):
        self.pkg = pkg
        self.mods = mods
        self._caches = None
        self._containers = self._snapshot_containers()

    # -- any other process-global mutable state -----------------------------------------------------------
    def _snapshot_containers(self):
        """Every dict / list / set held in a module global or class attribute of the package, with a shallow copy of its
        import-time content.  reset() puts that content back, so that a hand-rolled cache (a plain dict, not an
        lru_cache) cannot carry state from one run to the next either."""
        out = []
        seen = set()

        def note(owner, name, v):
            if id(v) in seen or name.startswith('__'):
                return
            if isinstance(v, (dict, list, set)):
                seen.add(id(v))
                out.append((f'{owner}.{name}', v, v.copy()))
            elif isinstance(v, (abc.MutableMapping, abc.MutableSet, abc.MutableSequence)) and not isinstance(v, (bytearray, array.array)):
                # any other container a cache might be kept in (WeakValueDictionary, OrderedDict subclass, deque ...)
                seen.add(id(v))
                try:
                    snap = dict(v) if isinstance(v, abc.MutableMapping) else set(v) if isinstance(v, abc.MutableSet) else list(v)
                except Exception:
                    return
                out.append((f'{owner}.{name}', v, snap))

        for mname in sorted(self.mods):
            m = self.mods[mname]
            for attr in sorted(vars(m)):
                v = vars(m)[attr]
                note(mname, attr, v)
                if isinstance(v, type) and getattr(v, '__module__', '').startswith('bitstring'):
                    for a2 in sorted(vars(v)):
                        note(f'{mname}.{attr}', a2, vars(v)[a2])
                elif getattr(type(v), '__module__', '').startswith('bitstring') and isinstance(getattr(v, '__dict__', None), dict):
                    # a module-level singleton (options, the dtype register ...): containers it holds as instance attributes
                    for a2 in sorted(vars(v)):
                        note(f'{mname}.{attr}', a2, vars(v)[a2])
        return out

    def restore_containers(self):
        for name, obj, snap in self._containers:
            if isinstance(obj, dict):
                if obj != snap or list(obj) != list(snap):
                    obj.clear()
                    obj.update(snap)
            elif isinstance(obj, list):
                if obj != snap:
                    obj[:] = snap
            elif isinstance(obj, set):
                if obj != snap:
                    obj.clear()
                    obj.update(snap)
            elif isinstance(obj, abc.MutableMapping):
                if len(obj) != len(snap) or any(k not in obj for k in snap):
                    obj.clear()
                    obj.update(snap)
            elif isinstance(obj, abc.MutableSet):
                if set(obj) != snap:
                    obj.clear()
                    for x in snap:
                        obj.add(x)
            elif list(obj) != snap:
                obj.clear()
                obj.extend(snap)

    # -- cache seam (S5) -------------------------------------------------------------------------------
    def caches(self):
        """All lru_cache wrappers reachable from module globals and class dicts, found by reflection.
        Returns a sorted list of (qualified name, wrapper)."""
        if self._caches is None:
            out = {}
            seen = set()
            for mname in sorted(self.mods):
                m = self.mods[mname]
                for attr in sorted(vars(m)):
                    v = vars(m)[attr]
                    if hasattr(v, 'cache_info') and hasattr(v, 'cache_clear'):
                        if id(v) not in seen:
                            seen.add(id(v))
                            out[f'{v.__module__}.{v.__qualname__}'] = v
                    if isinstance(v, type) and getattr(v, '__module__', '').startswith('bitstring'):
                        for a2 in sorted(vars(v)):
                            f = vars(v)[a2]
                            f = getattr(f, '__func__', f)
                            if hasattr(f, 'cache_info') and hasattr(f, 'cache_clear') and id(f) not in seen:
                                seen.add(id(f))
                                out[f'{f.__module__}.{f.__qualname__}'] = f
            self._caches = sorted(out.items())
        return self._caches

    def clear_caches(self, subset=None):
        """Clear every discovered cache (or those whose index is in subset); reset Array._largest_values."""
        cs = self.caches()
        for i, (_, c) in enumerate(cs):
            if subset is None or i in subset:
                c.cache_clear()
        if subset is None:
            try:
                self.pkg.Array._largest_values = None
            except AttributeError:
                pass

    def resize_caches(self, maxsize):
        """Re-wrap every discovered cache with another maxsize in every namespace that references it."""
        new_for = {}
        for name, c in self.caches():
            new_for[id(c)] = (c, functools.lru_cache(maxsize, typed=bool(c.cache_parameters().get('typed')))(c.__wrapped__))
        for mname in sorted(self.mods):
            m = self.mods[mname]
            for attr in sorted(vars(m)):
                v = vars(m)[attr]
                if id(v) in new_for and new_for[id(v)][0] is v:
                    setattr(m, attr, new_for[id(v)][1])
                if isinstance(v, type) and getattr(v, '__module__', '').startswith('bitstring'):
                    for a2 in sorted(vars(v)):
                        f = vars(v)[a2]
                        inner = getattr(f, '__func__', f)
                        if id(inner) in new_for and new_for[id(inner)][0] is inner:
                            nw = new_for[id(inner)][1]
                            if isinstance(f, classmethod):
                                setattr(v, a2, classmethod(nw))
                            elif isinstance(f, staticmethod):
                                setattr(v, a2, staticmethod(nw))
                            else:
                                setattr(v, a2, nw)
        old_ids = {k for k in new_for}
        self._caches = None
        # self-check: no namespace still references a pre-resize wrapper
        for _, c in self.caches():
            if id(c) in old_ids:
                raise RuntimeError('HARNESS: cache resize left an old wrapper behind')

    # -- options seam (S6) -----------------------------------------------------------------------------
    def reset_options(self):
        o = self.pkg.options
        o.lsb0 = False
        o.bytealigned = False
        o.mxfp_overflow = 'saturate'
        o.no_color = True

    def options_tuple(self):
        o = self.pkg.options
        return (bool(o.lsb0), bool(o.bytealigned), o.mxfp_overflow, bool(o.no_color))

    def reset(self):
        """Bring every process-global piece of state to a fixed point: makes a run a function of its seed."""
        self.reset_options()
        self.clear_caches()
        self.restore_containers()


_main = None


def main() -> Replica:
    """The main instance (stays in sys.modules as 'bitstring')."""
    global _main
    if _main is None:
        for k in list(_mods()):
            del sys.modules[k]
        pkg = _import_fresh()
        _main = Replica(pkg, _mods())
    return _main


def replica() -> Replica:
    """A private copy; not left in sys.modules."""
    main()
    saved = _mods()
    for k in saved:
        del sys.modules[k]
    try:
        pkg = _import_fresh()
        mods = _mods()
    finally:
        for k in list(_mods()):
            del sys.modules[k]
        sys.modules.update(saved)
    return Replica(pkg, mods)
