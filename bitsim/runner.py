"""Batch runner, known-findings matcher, evidence writer, replay, CLI.  DESIGN 2.6, 2.7, 5.2."""
from __future__ import annotations

import argparse
import faulthandler
import hashlib
import importlib
import json
import multiprocessing
import os
import re
import subprocess
import sys
import time
import traceback
from collections import Counter
from concurrent.futures import ProcessPoolExecutor, as_completed

from . import kernel

VERIF = os.path.dirname(os.path.dirname(os.path.abspath(__file__)))
EVIDENCE_DIR = os.environ.get('BITSIM_EVIDENCE_DIR') or os.path.join(VERIF, 'evidence')    # (development: runs against a scratch tree write elsewhere)
REPLAY_DIR = os.path.join(VERIF, 'replays')
KNOWN_FILE = os.path.join(VERIF, 'known_findings.txt')

ENGINES = {
    'C03': 'bitsim.engines.e_mut:EMut',
    'C04': 'bitsim.engines.e_alias:EAlias',
    'C06': 'bitsim.engines.e_stream:EStream',
    'C08': 'bitsim.engines.e_route:ERoute',
    'C09': 'bitsim.engines.e_cache:ECache',
    'C12': 'bitsim.engines.e_lsb0:ELsb0',
    'C14': 'bitsim.engines.e_array:EArray',
    'C15': 'bitsim.engines.e_reject:EReject',
    'C17': 'bitsim.engines.e_io:EIO',
    'C20': 'bitsim.engines.e_chaos:EChaos',
}


def engine_factory(prop):
    mod, cls = ENGINES[prop].split(':')
    m = importlib.import_module(mod)
    return getattr(m, cls)


# ---------------------------------------------------------------------------------------------------------
# known findings (committed file; never written at run time)
# ---------------------------------------------------------------------------------------------------------

def load_known(prop):
    """Lines: 'known: property=<id> signature=<sig> :: <what>'  or  'fixed: property=<id> <commit> <what>'."""
    known = {}
    if not os.path.exists(KNOWN_FILE):
        return known
    with open(KNOWN_FILE) as f:
        for line in f:
            line = line.strip()
            m = re.match(r'^known: property=(\S+) signature=(\S+) :: (.*)$', line)
            if m and m.group(1) == prop:
                known[m.group(2)] = m.group(3)
    return known


# ---------------------------------------------------------------------------------------------------------
# worker
# ---------------------------------------------------------------------------------------------------------

_PROC_HISTORY = []     # every run descriptor this (worker) process has executed, in order


def _worker(prop, descs, known_sigs, want_log):
    faulthandler.enable()
    faulthandler.dump_traceback_later(900, exit=True)
    Eng = engine_factory(prop)
    out = {'runs': 0, 'events': 0, 'probes': Counter(), 'faults': Counter(), 'states': set(),
           'transitions': set(), 'nontrivial': set(), 'known_hit': Counter(), 'unknown': [], 'digests': [],
           'samples': [], 'harness': None, 'log': []}
    for di, desc in enumerate(descs):
        _PROC_HISTORY.append(desc)
        try:
            rec = Eng().run(desc)
        except kernel.SimTimeout:
            out['harness'] = f'timeout outside an event in run {desc}'
            break
        except Exception:
            out['harness'] = f'engine crashed in run {desc}:\n{traceback.format_exc()}'
            break
        out['runs'] += 1
        out['events'] += max(len(rec.events) - 1, 0)
        out['probes'].update(rec.probes)
        out['faults'].update(rec.faults)
        out['states'] |= rec.states
        out['transitions'] |= rec.transitions
        ed = rec.events_digest()
        if rec.nontrivial:
            out['nontrivial'].add(ed[:16])
        out['digests'].append((desc['seed'], desc.get('case', 0), rec.digest()))
        if want_log:
            out['log'].append((desc['seed'], desc.get('case', 0), rec.events, rec.obs))
        if len(out['samples']) < 2 and rec.nontrivial:
            out['samples'].append(rec.events)
        seen = set()
        for inc in rec.incidents:
            if inc.sig in known_sigs:
                out['known_hit'][inc.sig] += 1
            elif inc.sig not in seen:
                seen.add(inc.sig)
                if len(out['unknown']) < 50:
                    out['unknown'].append({'desc': desc, 'events': rec.events, 'incident': inc.to_json(),
                                           'history': list(_PROC_HISTORY[-1500:])})
    faulthandler.cancel_dump_traceback_later()
    return out


def _chunks(xs, n):
    k = max(1, (len(xs) + n - 1) // n)
    return [xs[i:i + k] for i in range(0, len(xs), k)]


# ---------------------------------------------------------------------------------------------------------
# replay + fresh-interpreter confirmation
# ---------------------------------------------------------------------------------------------------------

def write_replay(prop, seed, events, inc, minimised, history=None):
    os.makedirs(REPLAY_DIR, exist_ok=True)
    d = hashlib.sha256(kernel.jdump(events).encode()).hexdigest()[:10]
    path = os.path.join(REPLAY_DIR, f'{prop}-{seed}-{d}.json')
    Eng = engine_factory(prop)
    script = None
    try:
        script = Eng().script(events)
    except Exception:
        script = None
    with open(path, 'w') as f:
        json.dump({'property': prop, 'seed': seed, 'signature': inc['signature'], 'detail': inc['detail'],
                   'minimised': minimised, 'events': events, 'script': script, 'history': history,
                   'replay_cmd': f'./check {prop} --replay {path}'}, f, indent=1, default=repr)
    return path


def witness_path(prop, sig):
    return os.path.join(VERIF, 'findings', prop, hashlib.sha1(sig.encode()).hexdigest()[:12] + '.json')


def save_witness(prop, replay_path):
    """Development command (never run by a check): copy a minimised replay into the committed findings directory."""
    with open(replay_path) as f:
        r = json.load(f)
    wp = witness_path(prop, r['signature'])
    os.makedirs(os.path.dirname(wp), exist_ok=True)
    with open(wp, 'w') as f:
        json.dump({'property': prop, 'signature': r['signature'], 'detail': r['detail'], 'events': r['events']}, f, indent=1)
    return wp


def replay_file(prop, path):
    with open(path) as f:
        r = json.load(f)
    Eng = engine_factory(prop)
    if r.get('history'):
        # the violation depends on state that an earlier run of the same process left behind (state the per-run reset
        # does not know about): re-execute the recorded sequence of runs, in order, in this process
        rec = None
        for desc in r['history']:
            rec = Eng().run(desc)
            if any(i.sig == r.get('signature') for i in rec.incidents):
                break
        return r, rec
    rec = Eng().replay(r['events'])
    return r, rec


def confirm_fresh(prop, path, sig):
    """Re-execute the replay in a fresh interpreter (another PYTHONHASHSEED); must fire the same signature."""
    env = dict(os.environ)
    env['PYTHONHASHSEED'] = '4242'
    p = subprocess.run([sys.executable, os.path.join(VERIF, 'check.py'), prop, '--replay', path, '--expect', sig],
                       capture_output=True, text=True, env=env, timeout=300, cwd=VERIF)
    return p.returncode == 1 and 'REPLAY-FIRED' in p.stdout, p.stdout + p.stderr


# ---------------------------------------------------------------------------------------------------------
# batch
# ---------------------------------------------------------------------------------------------------------

def run_batch(prop, tier, seed, workers=None, wall_cap=None, want_log=False, plan_override=None, quiet=False):
    t0 = time.time()
    Eng = engine_factory(prop)
    eng = Eng()
    descs = plan_override if plan_override is not None else eng.plan(tier, seed)
    known = load_known(prop)
    workers = workers or min(16, os.cpu_count() or 1)
    agg = {'runs': 0, 'events': 0, 'probes': Counter(), 'faults': Counter(), 'states': set(),
           'transitions': set(), 'nontrivial': set(), 'known_hit': Counter(), 'unknown': [], 'digests': [],
           'samples': [], 'log': []}
    harness = None
    truncated = False
    # many small chunks so that a wall cap can stop early and load is balanced
    chunks = _chunks(descs, max(workers * 8, 1))
    if workers == 1:
        for ch in chunks:
            if wall_cap and time.time() - t0 > wall_cap:
                truncated = True
                break
            r = _worker(prop, ch, set(known), want_log)
            _merge(agg, r)
            if r['harness']:
                harness = r['harness']
                break
    else:
        ctx = multiprocessing.get_context('fork')
        with ProcessPoolExecutor(max_workers=workers, mp_context=ctx) as ex:
            futs = []
            pending = list(chunks)
            inflight = {}
            try:
                while pending or inflight:
                    while pending and len(inflight) < workers * 2:
                        if wall_cap and time.time() - t0 > wall_cap:
                            truncated = True
                            pending = []
                            break
                        ch_ = pending.pop(0)
                        f = ex.submit(_worker, prop, ch_, set(known), want_log)
                        inflight[f] = ch_
                    if not inflight:
                        break
                    done = next(as_completed(list(inflight), timeout=1200))
                    del inflight[done]
                    r = done.result()
                    _merge(agg, r)
                    if r['harness']:
                        harness = r['harness']
                        pending = []
            except Exception:
                harness = 'worker died or hung:\n' + traceback.format_exc()
                agg['suspect_chunks'] = [c for c in inflight.values() if isinstance(c, list)]
                for f in inflight:
                    f.cancel()
    agg['wall'] = time.time() - t0
    agg['harness'] = harness
    agg['truncated'] = truncated
    agg['planned'] = len(descs)
    agg['known'] = known
    agg['level'] = eng.level
    agg['engine'] = eng
    return agg


def _merge(agg, r):
    agg['runs'] += r['runs']
    agg['events'] += r['events']
    agg['probes'].update(r['probes'])
    agg['faults'].update(r['faults'])
    agg['states'] |= r['states']
    agg['transitions'] |= r['transitions']
    agg['nontrivial'] |= r['nontrivial']
    agg['known_hit'].update(r['known_hit'])
    agg['unknown'].extend(r['unknown'])
    agg['digests'].extend(r['digests'])
    agg['log'].extend(r['log'])
    if len(agg['samples']) < 3:
        agg['samples'].extend(r['samples'][:3 - len(agg['samples'])])


def batch_digest(agg):
    return hashlib.sha256(kernel.jdump(sorted(agg['digests'])).encode()).hexdigest()


def anchor_coverage(prop, descs, n=120):
    """Reach measure: which statements of the property's anchored source files a sample of this batch's runs executes
    (one process, coverage.py tracing).  Returns {file: {statements, executed, percent}} or a note if unavailable."""
    try:
        import coverage
        from . import loader
        files = []
        with open(os.path.join(VERIF, 'properties.jsonl')) as f:
            for line in f:
                pr = json.loads(line)
                if pr['id'] == prop:
                    files = pr['anchors']['files']
        Eng = engine_factory(prop)
        cov = coverage.Coverage(data_file=None, include=[os.path.join(loader.ROOT, 'bitstring', '*')])
        cov.start()
        try:
            step = max(1, len(descs) // n)
            for d in descs[::step][:n]:
                Eng().run(d)
        finally:
            cov.stop()
        out = {}
        for rel in files:
            path = os.path.join(loader.ROOT, rel)
            try:
                _, stmts, _, missing, _ = cov.analysis2(path)
                out[rel] = {'statements': len(stmts), 'executed': len(stmts) - len(missing), 'percent': round(100.0 * (len(stmts) - len(missing)) / max(len(stmts), 1), 1)}
            except Exception as e:      # file not touched at all / not measurable
                out[rel] = {'note': type(e).__name__}
        return out
    except Exception as e:
        return {'note': f'coverage measurement unavailable: {type(e).__name__}'}


def write_evidence(prop, tier, seed, agg, violations, extra=None):
    os.makedirs(EVIDENCE_DIR, exist_ok=True)
    eng = agg['engine']
    weak = sorted(p for p in getattr(eng, 'expected_probes', ()) if agg['probes'].get(p, 0) == 0)
    samples = [s[:25] + ([{'note': f'... {len(s) - 25} further events'}] if len(s) > 25 else []) for s in agg['samples'][:3]]
    cov = {
        'evaluations': agg['runs'],
        'distinct_nontrivial': len(agg['nontrivial']),
        'rule': getattr(eng, 'rule', ''),
        'samples': samples if samples else ['(no non-trivial run in this batch)'],
        'events': agg['events'],
        'runs_planned': agg['planned'],
        'truncated_by_wall_cap': agg['truncated'],
        'runs_per_hour': int(agg['runs'] / max(agg['wall'], 1e-6) * 3600),
        'events_per_hour': int(agg['events'] / max(agg['wall'], 1e-6) * 3600),
        'seeds': {'base': seed, 'derivation': 'run seed = base*1000003 + run index'},
        'simulated_time': 'logical steps only (global event sequence number) - the system reads no clock',
        'faults_fired': dict(sorted(agg['faults'].items())),
        'probes': dict(sorted(agg['probes'].items())),
        'weak_probes': weak,
        'distinct_abstract_states': len(agg['states']),
        'distinct_transitions': len(agg['transitions']),
        'real_components': getattr(eng, 'real_components', ['all of bitstring (imported from the working tree)', 'bitarray', 'CPython']),
        'stub_components': getattr(eng, 'stub_components', []),
        'known_findings_hit': dict(sorted(agg['known_hit'].items())),
        'batch_digest': batch_digest(agg),
        'exhaustive': bool(getattr(eng, 'exhaustive', False)),
    }
    if extra:
        cov.update(extra)
    ev = {
        'property_id': prop, 'tier': tier, 'seed': seed, 'level': agg['level'], 'coverage': cov,
        'assumptions': getattr(eng, 'assumptions', []),
        'wall_s': round(agg['wall'], 3), 'violations': violations,
    }
    path = os.path.join(EVIDENCE_DIR, f'{prop}.json')
    tmp = f'{path}.{os.getpid()}.tmp'     # two checks of one property may run at the same time (tools/*_eval.py)
    with open(tmp, 'w') as f:
        json.dump(ev, f, indent=1, default=repr)
    os.replace(tmp, path)
    return path, weak


def _runs_in_child(prop, descs, timeout=600):
    """Execute the given runs, in order, in a child interpreter.  Returns its exit status (negative: killed by that signal)."""
    import tempfile
    with tempfile.NamedTemporaryFile('w', suffix='.json', delete=False) as f:
        json.dump(descs, f)
        path = f.name
    try:
        p = subprocess.run([sys.executable, '-X', 'faulthandler', os.path.join(VERIF, 'check.py'), prop, '--descs', path], capture_output=True, text=True,
                           timeout=timeout, cwd=VERIF)
        return p.returncode, (p.stderr or '')[-1500:]
    except subprocess.TimeoutExpired:
        return 0, 'timeout'
    finally:
        os.unlink(path)


def locate_crash(prop, chunks, budget=40):
    """A worker process was terminated abruptly.  Find the run that kills the interpreter: each suspect chunk is re-executed in a
    child process; inside the first one that dies, the shortest prefix of runs that still dies (the runs before the last one may have
    prepared the ground).  Returns (history of runs, stderr tail) or None."""
    calls = 0
    for ch in chunks:
        if calls >= budget:
            break
        rc, err = _runs_in_child(prop, ch)
        calls += 1
        if rc >= 0 or rc == -9:
            continue
        lo, hi = 1, len(ch)               # smallest k such that ch[:k] dies
        last_err = err
        while lo < hi and calls < budget:
            mid = (lo + hi) // 2
            rc2, err2 = _runs_in_child(prop, ch[:mid])
            calls += 1
            if rc2 < 0 and rc2 != -9:
                hi, last_err = mid, err2
            else:
                lo = mid + 1
        hist = ch[:hi]
        rc3, err3 = _runs_in_child(prop, hist[-1:])
        if rc3 < 0 and rc3 != -9:
            hist, last_err = hist[-1:], err3
        return hist, last_err
    return None


TIER_WALL_CAP = {'quick': 60, 'thorough': 1500}


def check(prop, tier, seed, workers=None, runs=None):
    Eng = engine_factory(prop)
    plan = None
    if runs is not None:
        plan = Eng().plan(tier, seed)[:runs]
    agg = run_batch(prop, tier, seed, workers=workers, wall_cap=TIER_WALL_CAP[tier], plan_override=plan)
    print(f'{prop} {agg["engine"].name} tier={tier} seed={seed} runs={agg["runs"]}/{agg["planned"]} events={agg["events"]} '
          f'wall={agg["wall"]:.1f}s distinct_nontrivial={len(agg["nontrivial"])} digest={batch_digest(agg)[:16]}')
    if agg['harness'] and agg.get('suspect_chunks') and prop == 'C20':
        # The interpreter itself died inside a worker.  Under C20 ("never an internal error") that is a finding about the code under
        # test if a child interpreter running the same runs dies the same way; the replay file re-executes those runs.
        found = locate_crash(prop, agg['suspect_chunks'])
        if found:
            hist, err = found
            inc = {'signature': f'{prop}|crash|interpreter-terminated-abruptly', 'detail': {'runs': len(hist), 'stderr_tail': err[-600:]}}
            path = write_replay(prop, hist[-1]['seed'], [], inc, False, history=hist)
            write_evidence(prop, tier, seed, agg, 1, {'harness_error': agg['harness'][:500]})
            print(f'VIOLATION property={prop} replay={path}')
            print(f'  signature={inc["signature"]}')
            print(f'  note=the interpreter dies while executing the recorded run(s); ./check {prop} --replay {path} dies the same way')
            print(f'  detail={kernel.jdump(inc["detail"])[:1200]}')
            return 1
    if agg['harness']:
        write_evidence(prop, tier, seed, agg, 0, {'harness_error': agg['harness'][:2000]})
        print('HARNESS ' + agg['harness'])
        return 2
    # committed witnesses of known findings are replayed on every run, so that each listed finding is either
    # reported (it still fires) or visibly absent (it no longer reproduces on this tree)
    for sig in sorted(agg['known']):
        wp = witness_path(prop, sig)
        if os.path.exists(wp):
            with open(wp) as f:
                wev = json.load(f)['events']
            wrec = Eng().replay(wev)
            if any(i.sig == sig for i in wrec.incidents):
                agg['known_hit'][sig] += 1
            else:
                print(f'NOTE known finding no longer reproduces from its witness: {sig}')
    for sig, n in sorted(agg['known_hit'].items()):
        print(f'KNOWN-FINDING: property={prop} {agg["known"][sig]} [signature={sig} hits={n}]')
    violations = 0
    unrepro = 0
    rc = 0
    by_sig = {}
    for u in agg['unknown']:
        by_sig.setdefault(u['incident']['signature'], u)
    for sig in sorted(by_sig, key=lambda s_: ('|hang|' in s_, s_))[:8]:
        u = by_sig[sig]
        if '|hang|' in sig and prop != 'C20':
            # an event over its CPU budget.  Only C20 ("either succeeds or raises") says anything about termination, and a slow call
            # that would finish is no violation of any property: reported, never an alarm, under the other checks.
            print(f'NOTE event over its CPU budget (no verdict under {prop}): {sig} in run {u["desc"]}')
            continue
        events, ok = kernel.minimise(lambda: Eng(), u['events'], sig)
        if ok and not any(i.sig == sig for i in Eng().replay(events).incidents):
            ok = False        # reproduced once but not twice: state outside the run is involved
        if not ok and '|hang|' in sig:
            # an event exceeded its CPU budget once and not again: a stall of the machine, not a property of the code
            print(f'NOTE transient stall (event over its CPU budget, not reproducible): {sig} in run {u["desc"]}')
            continue
        if not ok:
            # not reproducible from the run's own events: perhaps an earlier run in the same worker left state behind
            # that the per-run reset does not cover.  Replay the worker's sequence of runs in a fresh interpreter.
            hist = u.get('history') or [u['desc']]
            path = write_replay(prop, u['desc']['seed'], u['events'], u['incident'], False, history=hist)
            fired, out = confirm_fresh(prop, path, sig)
            if fired:
                violations += 1
                print(f'VIOLATION property={prop} replay={path}')
                print(f'  signature={sig}')
                print(f'  note=state leaked across runs: the replay file re-executes {len(hist)} runs in order (not minimised)')
                print(f'  detail={kernel.jdump(u["incident"]["detail"])[:1500]}')
                rc = max(rc, 1)
                continue
            print(f'HARNESS-NONDETERMINISM signature={sig} did not reproduce in-process nor as a history of {len(hist)} runs (run {u["desc"]})')
            unrepro += 1
            continue
        rec = Eng().replay(events)
        inc = next(i for i in rec.incidents if i.sig == sig).to_json()
        path = write_replay(prop, u['desc']['seed'], events, inc, True)
        fired, out = confirm_fresh(prop, path, sig)
        if not fired:
            print(f'HARNESS-NONDETERMINISM signature={sig} did not reproduce in a fresh interpreter: {path}\n{out[-2000:]}')
            unrepro += 1
            continue
        violations += 1
        print(f'VIOLATION property={prop} replay={path}')
        print(f'  signature={sig}')
        print(f'  detail={kernel.jdump(inc["detail"])[:1500]}')
        rc = max(rc, 1)
    if len(by_sig) > 8:
        print(f'  (+{len(by_sig) - 8} further distinct signatures not minimised: {sorted(by_sig)[8:]})')
    if unrepro:
        # an incident that does not replay carries no verdict of its own: with confirmed violations beside it the batch is a
        # violation (exit 1, every VIOLATION line has a replay that fires); alone it is a harness error (exit 2, never 0)
        if violations:
            print(f'NOTE {unrepro} further signature(s) seen in the batch did not reproduce and are not counted (see HARNESS-NONDETERMINISM lines)')
        else:
            rc = max(rc, 2)
    extra = None
    if rc == 0 and not os.environ.get('BITSIM_NO_COVERAGE'):
        sample = plan if plan is not None else Eng().plan(tier, seed)
        extra = {'anchor_lines_hit': anchor_coverage(prop, sample),
                 'anchor_lines_hit_rule': 'statement coverage (coverage.py) of the anchored files of properties.jsonl by ~120 runs of this batch re-executed in one traced process; import-time lines are not counted'}
    _, weak = write_evidence(prop, tier, seed, agg, violations, extra)
    for p in weak:
        print(f'HARNESS-WEAK {p}')
    if rc == 0:
        print(f'OK property={prop} held on everything explored')
    return rc


def main(argv=None):
    ap = argparse.ArgumentParser(prog='check')
    ap.add_argument('prop')
    ap.add_argument('--tier', default=os.environ.get('VERIF_TIER', 'quick'), choices=['quick', 'thorough'])
    ap.add_argument('--seed', type=int, default=int(os.environ.get('VERIF_SEED', '1') or 1))
    ap.add_argument('--workers', type=int, default=None)
    ap.add_argument('--runs', type=int, default=None)
    ap.add_argument('--replay')
    ap.add_argument('--expect')
    ap.add_argument('--save-witness', help='development: store this replay file as the committed witness of its signature')
    ap.add_argument('--digest', action='store_true', help='print the batch digest only (determinism self-test)')
    ap.add_argument('--descs', help='internal: execute the run descriptors of this JSON file in order, in this process')
    a = ap.parse_args(argv)
    if a.prop not in ENGINES:
        print(f'unknown or not-applicable property {a.prop}')
        return 2
    if a.save_witness:
        print(save_witness(a.prop, a.save_witness))
        return 0
    if a.descs:
        faulthandler.enable()
        with open(a.descs) as f:
            for desc in json.load(f):
                engine_factory(a.prop)().run(desc)
        return 0
    if a.replay:
        r, rec = replay_file(a.prop, a.replay)
        sigs = [i.sig for i in rec.incidents]
        want = a.expect or r.get('signature')
        known = load_known(a.prop)
        for i in rec.incidents:
            print(f'incident at event {i.at}: {i.sig} {kernel.jdump(i.detail)[:800]}')
        if want in sigs:
            print(f'REPLAY-FIRED signature={want}')
            if want in known:
                print(f'KNOWN-FINDING: property={a.prop} {known[want]}')
                return 0
            print(f'VIOLATION property={a.prop} replay={a.replay}')
            return 1
        print('REPLAY-CLEAN: the recorded violation did not fire')
        return 0
    if a.digest:
        Eng = engine_factory(a.prop)
        plan = Eng().plan(a.tier, a.seed)
        if a.runs:
            plan = plan[:a.runs]
        agg = run_batch(a.prop, a.tier, a.seed, workers=a.workers, plan_override=plan)
        if agg['harness']:
            print('HARNESS ' + agg['harness'])
            return 2
        print(batch_digest(agg))
        return 0
    return check(a.prop, a.tier, a.seed, workers=a.workers, runs=a.runs)
