#!/venv/bin/python
"""Entry point: ./check <ID> --tier quick|thorough [--seed N] [--replay FILE].  See bitsim/runner.py."""
import os
import sys

sys.path.insert(0, os.path.dirname(os.path.abspath(__file__)))
sys.dont_write_bytecode = True
from bitsim import runner  # noqa: E402

# A change under test may turn a call into an allocation bomb: cap the address space of this process and of the
# workers forked from it, so that it ends in a MemoryError inside the call instead of exhausting the machine.
try:
    import resource
    _lim = int(os.environ.get('BITSIM_AS_LIMIT_GB', '6')) << 30
    resource.setrlimit(resource.RLIMIT_AS, (_lim, _lim))
except (ImportError, ValueError, OSError):
    pass

if __name__ == '__main__':
    sys.exit(runner.main())
