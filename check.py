#!/venv/bin/python
"""Entry point: ./check <ID> --tier quick|thorough [--seed N] [--replay FILE].  See bitsim/runner.py."""
import os
import sys

sys.path.insert(0, os.path.dirname(os.path.abspath(__file__)))
sys.dont_write_bytecode = True
from bitsim import runner  # noqa: E402

if __name__ == '__main__':
    sys.exit(runner.main())
