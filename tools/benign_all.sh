#!/bin/sh
# every committed benign (property-preserving) change against every check: any non-zero exit is a false alarm
cd "$(dirname "$0")/.."
bad=0
for d in benign/*/; do
  out=$(/venv/bin/python tools/benign_eval.py "$(pwd)/${d%/}/change.diff" 2>&1)
  rcs=$(echo "$out" | grep -o '"rc": [0-9]*' | sort | uniq -c | tr '\n' ' ')
  echo "$(basename $d): $rcs"
  if echo "$out" | grep -q '"rc": [12]'; then bad=$((bad+1)); echo "$out" | grep -B2 -A8 '"rc": [12]' | cut -c1-400; fi
  if echo "$out" | grep -q '"applies": false'; then echo "  (does not apply to HEAD any more)"; fi
done
echo "benign changes with an alarm: $bad"
