#!/venv/bin/python
"""False-alarm test: apply a LEGITIMATE (property-preserving) change in a scratch worktree and run every check on it.
usage: benign_eval.py <diff> [check ids...]   - every check must exit 0."""
import json, os, shutil, subprocess, sys, time
V = os.path.dirname(os.path.dirname(os.path.abspath(__file__)))
diff = sys.argv[1]
checks = sys.argv[2:] or ['C03', 'C04', 'C06', 'C08', 'C09', 'C12', 'C14', 'C15', 'C17', 'C20']
wt = f'/tmp/benev_{os.getpid()}'
out = {'diff': diff}
def sh(cmd, **kw):
    return subprocess.run(cmd, shell=True, capture_output=True, text=True, **kw)
try:
    sh(f'git -C /repo worktree add -q --detach {wt} HEAD')
    r = sh(f'git -C {wt} apply --whitespace=nowarn {diff}')
    if r.returncode != 0:
        r = sh(f'git -C {wt} apply --3way --whitespace=nowarn {diff}')
    out['applies'] = r.returncode == 0
    if not out['applies']:
        out['apply_error'] = r.stderr[-300:]
        print(json.dumps(out, indent=1)); sys.exit(1)
    if not os.environ.get('BENIGN_NO_SUITE'):
        r = sh(f'cd {wt} && env -u BITSTRING_VERIF /venv/bin/python -m pytest -q -p no:cacheprovider --benchmark-disable -q 2>&1 | tail -2', timeout=900)
        out['suite_passes'] = ('failed' not in r.stdout and 'error' not in r.stdout.lower())
    out['checks'] = {}
    for c in checks:
        env = dict(os.environ, BITSIM_REPO=wt)
        r = subprocess.run([os.path.join(V, 'check'), c, '--tier', 'quick'], capture_output=True, text=True, env=env, cwd=V, timeout=3600)
        out['checks'][c] = {'rc': r.returncode, 'lines': [l[:300] for l in r.stdout.splitlines() if l.startswith(('VIOLATION', '  signature', '  detail', 'HARNESS'))][:9]}
        sh(f'git -C {V} checkout -- evidence/{c}.json')
finally:
    sh(f'git -C /repo worktree remove --force {wt}')
    shutil.rmtree(wt, ignore_errors=True)
print(json.dumps(out, indent=1))
