#!/venv/bin/python
"""Regenerate /verif/MANIFEST.json from the table below (claimed properties whose engine module exists)."""
import json, os, subprocess, sys
V = os.path.dirname(os.path.dirname(os.path.abspath(__file__)))
sys.path.insert(0, V)
from bitsim.runner import ENGINES

CLAIMS = {
 'C03': ('exploration', '4/C03', 'seeded programs of mutators on one BitArray/BitStream compared in lock-step with a list-of-bits reference model; faulty producers and rejected calls as injected faults; cache clears and options.bytealigned changes between events; a fifth of the runs under options.lsb0 (the msb0 specification on mirrored content and operands)',
         'Reference model written from docstrings/doc/ and behaviour pinned by the unedited suite (relaxations listed in DESIGN 5.3). Sampled, not exhaustive.'),
 'C04': ('exploration', '4/C04', 'seeded histories over a pool of live objects of every kind; shadow snapshot of every object checked after every derive/mutate/external-actor/generator-step/cache event',
         'Needs no model of what operations compute: only who else changes. File changes by another process are never generated.'),
 'C06': ('exploration', '4/C06', 'seeded histories of stream operations compared in lock-step with a (bits, pos) reference machine; truncation events cut codewords and fixed fields; values are checked against the library\'s own whole-value interpretation of the consumed bits, search results against a search of the model\'s own bit string; options.bytealigned toggled and options.lsb0 switched on for single refused reads as process-global events',
         'Interpretations themselves are trusted (C02/C10/C11 not applicable); msb0 only for exp-Golomb.'),
 'C08': ('exploration', '4/C08', 'object built by a route (text, bytes+window, iterable / generator / one-shot iterator, big- and little-endian bitarray, array, BytesIO, slice/copy, cache hit, file by name/handle with offset/length on a simulated file system with complement slack bytes, incl. 2 MiB files with markers across every power-of-two boundary) and an in-memory twin built from the observed bits receive the same public call; results, exceptions and final contents compared after every event; unlink/append/close/caches as environment events',
         'Little-endian host only. The twin is built from the observed bits; since the third session every source-window route must also build exactly the window of its source (a refusal or other bits is a difference between routes).'),
 'C09': ('exploration', '4/C09', 'two private replicas of the package in one process: W keeps its caches (evicted/resized by injected faults, >256 keys with Zipf reuse), C has every lru_cache cleared and every plain module/class-level container restored before every call; the same construct/parse/pack/unpack/Dtype/Array/option event goes to both and observations must agree; end-of-run restoration check',
         'The cold result is taken as the reference (not independently checked for correctness).'),
 'C12': ('exploration', '4/C12', 'two private replicas: L toggles lsb0 between calls and generator steps, M stays msb0 and receives bit-reversed operands with identical position arguments; results un-mirrored and compared; whole-value interpretations compared across toggles',
         'The oracle is the real msb0 code, as the statement defines the law; split is not in the statement\'s list and is not compared.'),
 'C14': ('exploration', '4/C14', 'seeded programs of list operations and operators on one Array compared in lock-step with a (python list, item width, trailing bits) model; item encodings come from the library\'s own Bits(<dtype>=value); faulty producers, unfit values, short files, option toggles (lsb0, bytealigned) and emptied caches as faults; twins of the data under a scaled Dtype object',
         'Encodings of single items are trusted (C02/C11 not applicable).'),
 'C15': ('exploration', '4/C15', 'scoped: (1) bounded-exhaustive enumeration of (source kind, size, offset, length) windows over every byte/bitarray/file source: inside => exact window, outside (beyond the end, negative offset or length) => CreationError and no object; (2) seeded histories of rejected writes on live targets must be no-ops',
         'Scoped to the two non-pure clauses (short source at a read seam; rejected write has no effect). The full dtype x length x value classification of fresh constructions is a pure function and is met only as workload.'),
 'C17': ('fault_enumeration', '4/C17', 'recording/faulting writer with every write index a crash point (error, torn, closed), chunk-size knob through the guarded hook, real files with real mmap, byte- and wide-item buffers, fresh / positioned / re-used BytesIO and every kind of binary file object (read, update, unbuffered, bytes path, unnamed reader) for every valid (offset,length) read window, the source rewritten / the file replaced after the read, Array.fromfile short/exact/long/negative, round trip through the file system',
         'Writers follow the buffered BinaryIO contract. Truncation of a mapped file by another process (SIGBUS) is never injected.'),
 'C20': ('exploration', '4/C20', 'reflection-driven random programs over every public callable/property of the four classes, Array, Dtype and pack with arguments drawn from the annotated types and adversarial values, under msb0/lsb0, with faulting writers/producers/streams, suspended generators, copies through copy/deepcopy/pickle; an interpreter that dies is located and reported; transition-based invariant monitor (documented exception classes, len==len(bin), 0<=pos<=len, immutables unchanged, options as left)',
         'Sampled; says nothing about which allowed outcome occurs. MemoryError paths not explored.'),
}
NA = {
 'C01': 'pure function of the operands (no history, environment seam or knob): generating inputs for it would be property-based testing, not simulation; its only stateful anchor (file-backed length) is exercised under C08',
 'C02': 'pure total function (dtype, length, value, route) -> bits and back; nothing persists between calls except the memo caches, whose history-dependence is exactly C09',
 'C05': 'pack/unpack/token strings are functions of (format, values, kwargs); the memoised parsers they use are the subject of C09',
 'C07': 'match selection is a function of (data, pattern, window, count, effective bytealigned flag); options.bytealigned is only a default read at call time, not a history',
 'C10': 'encoders are functions of the integer, decoders of (bits, pos); truncated/concatenated codewords are exercised as workload in the C06 engine and a wrong consumption is reported there',
 'C11': 'finite pure tables (<=256 codes, 65536 half-precision inputs): exhaustive enumeration against an exact model is the right tool and is not simulation; the one history facet (mxfp_overflow vs cached token strings) is C09',
 'C13': 'a relation over pairs/triples of values; position- and route-independence of ==/hash are re-checked as workload in the C06 and C08 engines',
 'C16': 'per-bit boolean functions of the operands; the aliasing clause (operands never modified) is checked as a derivation route in the C04 engine',
 'C18': 'differential claim against struct/array over (code, endianness, values): pure; the one environmental input (sys.byteorder at import) has a single value in this sandbox',
 'C19': 'str/repr/pp are functions of (value, layout parameters, current options); a failing output stream is exercised under C20, re-parsability and layout arithmetic are pure',
}
ENG = {'C03': 'E-MUT', 'C04': 'E-ALIAS', 'C06': 'E-STREAM', 'C08': 'E-ROUTE', 'C09': 'E-CACHE', 'C12': 'E-LSB0',
       'C14': 'E-ARRAY', 'C15': 'E-REJECT', 'C17': 'E-IO', 'C20': 'E-CHAOS'}

# engines whose check has been validated on the unchanged tree (exit 0) - only these are claimed
READY = {'C03', 'C04', 'C06', 'C08', 'C09', 'C12', 'C14', 'C15', 'C17', 'C20'}

def exists(p):
    if p not in READY:
        return False
    mod = ENGINES[p].split(':')[0].replace('.', '/') + '.py'
    return os.path.exists(os.path.join(V, mod))

hooks = subprocess.run(['git', '-C', '/repo', 'log', '--format=%H %s'], capture_output=True, text=True).stdout.splitlines()
hook_commits = [l.split()[0] for l in hooks if l.split(' ', 1)[1].startswith('hook:')]
checks, engines, na = [], [], []
for p in sorted(CLAIMS):
    lvl, ref, technique, note = CLAIMS[p]
    if not exists(p):
        na.append({'property_id': p, 'reason': 'claimed in DESIGN.md (engine %s) but its check is not built yet; no claim is made until it is' % ENG[p]})
        continue
    checks.append({
        'property_id': p,
        'quick_cmd': f'./check {p} --tier quick',
        'thorough_cmd': f'./check {p} --tier thorough',
        'evidence_file': f'/verif/evidence/{p}.json',
        'replay_cmd_template': f'./check {p} --replay {{path}}',
        'engine': ENG[p],
        'level_claimed': {'category': lvl, 'text': technique, 'design_ref': 'DESIGN.md section ' + ref},
        'level_note': note,
        'technique': 'deterministic simulation with fault injection: ' + technique.split(';')[0],
    })
    engines.append({'name': ENG[p], 'path': '/verif/' + ENGINES[p].split(':')[0].replace('.', '/') + '.py',
                    'serves_properties': [p], 'kind_free_text': 'seeded single-process simulator engine (bitsim kernel), see DESIGN.md section 3'})
for p in sorted(NA):
    na.append({'property_id': p, 'reason': NA[p]})
m = {
 'version': 1,
 'setup_cmd': '/venv/bin/python -B tools/setup_check.py',
 'hooks': {
   'guard': 'BITSTRING_VERIF',
   'enable': 'environment variable BITSTRING_VERIF=1 at import of bitstring (bitsim/loader.py sets it); the harness then sets bitstring.bits._VERIF_TOFILE_CHUNK_BITS',
   'baseline_off_cmd': 'cd /repo && env -u BITSTRING_VERIF /venv/bin/python -m pytest -ra -q -p no:cacheprovider --timeout=900 --continue-on-collection-errors',
   'source_commits': hook_commits,
   'add_only': True,
 },
 'engines': engines,
 'checks': checks,
 'not_applicable': sorted(na, key=lambda d: d['property_id']),
 'notes': 'One technique throughout: deterministic simulation with fault injection (DESIGN.md). Exit status: 0 held, 1 VIOLATION, 2 harness failure. known_findings.txt lists recorded genuine defects (known: - none at present) and repaired ones (fixed:). seeded/ holds the independently seeded breaking changes (four rounds) with the check that catches each (tools/seed_recheck.py re-runs them), benign/ 20 legitimate changes on which every check must stay silent (tools/benign_eval.py).',
}
json.dump(m, open(os.path.join(V, 'MANIFEST.json'), 'w'), indent=1)
print('claimed:', [c['property_id'] for c in checks])
