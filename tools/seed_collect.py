#!/venv/bin/python
"""Copy the validated seeded changes into /verif/seeded/<id>/ and (re)evaluate each against its property's check."""
import json, os, shutil, subprocess, sys
V = os.path.dirname(os.path.dirname(os.path.abspath(__file__)))
NEEDS = {
 'C03-1': ("byteswap(repeat=False): finalbit clamped to len(self) instead of end", "repeat=False plus an explicit end where the pattern does not fit in [start,end) but fits in the bitstring"),
 'C03-2': ("set(): range fast-path guard drops the lower bound check on the last position", "a range object with negative step that starts non-negative and runs through 0 into negative positions"),
 'C03-3': ("_addleft: fast path for an empty target shares the operand's (possibly cached) store", "prepend (or lsb0 append) onto an EMPTY BitArray/BitStream with a Bits or string operand, then an in-place mutation, then reuse of the operand/string"),
 'C04-1': ("constructor wraps bytes/memoryview zero-copy with frombuffer", "Bits/ConstBitStream built positionally from a memoryview of a writable buffer which is then changed in place"),
 'C04-2': ("BitStore._copy clones the immutable flag (two cooperating sites: copy() shares stores flagged immutable)", "mutable object made by a route that bypasses __init__ (fromstring, .bits=, str + BitArray), then Bits(m)/copy, then an in-place mutation"),
 'C04-3': ("_addleft: fast path for an empty target uses copy() (returns the source's own store when immutable)", "empty mutable target, bits added from the left (prepend in msb0; append/+=/Array(dtype, Bits) in lsb0) from an immutable source, then mutation of the target"),
 'C06-1': ("_readue: off-by-one in the truncation check", "readlist/peeklist/unpack (not read/peek) of ue/se with >= 2 leading zeros, short by exactly one bit"),
 'C06-2': ("bytealign fast path writes _pos directly, bypassing the validating setter", "len % 8 != 0 and pos inside the final partial byte"),
 'C06-3': ("BitStream.overwrite: length of bs taken after the write", "a BitStream overwritten with ITSELF at a non-zero position (the stream, hence the argument, grows)"),
 'C08-1': ("frombuffer: truncation skipped when length ends inside the buffer's final byte", "file route, offset 0, file_bits-8 < length < file_bits; then ==, count, all/any, ~, +, &|^ or BitArray(filename=, length=) + mutation"),
 'C08-2': ("Bits.__getitem__ flags the slice result's store immutable (BitArray inherits the method)", "BitArray slice c = big[i:j]; snap = Bits(c); mutate c in place -> the immutable snapshot changes"),
 'C08-3': ("BitArray.fromstring: _copy() -> copy() (cached store no longer copied)", "fromstring classmethod, in-place mutation of the result, same text used again in the same option mode"),
 'C09-1': ("pack(): single-token fast path hands the collected store to the result", "pack('bits', '<string>') (exactly one token), in-place mutation of the result, then construction from the same string"),
 'C09-2': ("str_to_bitstore cache key omits lsb0", "string with an exp-Golomb token built with lsb0 False, then again with lsb0 True while still cached (error returns after eviction)"),
 'C09-3': ("typed=True dropped from both Dtype caches", "Dtype('uint8', scale=2.0) after Dtype('uint8', scale=2) (or 1 vs True), token route or name+length route"),
 'C12-1': ("_findall_lsb0: count applied before the byte-alignment filter", "lsb0, findall, bytealigned=True, a count, and an unaligned match ahead of an aligned one"),
 'C12-2': ("offset_slice_indices_lsb0: new_stop < 0 became <= 0", "lsb0, step exactly -1, start == len-2 / -2 (get, del, set with range)"),
 'C12-3': ("set_lsb0: flag is bool(value) but method tables chosen with 'value is True'", "lsb0 switched on with a truthy non-True value (options.lsb0 = 1)"),
 'C14-1': ("in-place scalar operators write each result straight into self.data (no rollback)", "some items fit and a LATER one does not: the raising in-place operator leaves earlier items changed"),
 'C14-2': ("Array.insert: i >= len appends (after the trailing bits)", "trailing bits AND an index >= len"),
 'C14-3': ("_promotetype: int-vs-int tie-break flipped", "two integer dtypes of the same signedness and length but different names (uintle16 vs uintbe16, bool vs uint1): result dtype/data, tolist identical"),
 'C15-1': ("BytesIO bounds check lost its byteoffset*8 term", "BytesIO route with a length and an offset >= 8: window beyond the data accepted and truncated"),
 'C15-2': ("whole-byte check removed from the endian setters", "length-less property assignment on a non-whole-byte bitstring (a.uintle = 5 on 12 bits grows it to 16)"),
 'C15-3': ("BitStream.__setattr__ zeroes pos before the setter and restores it without try/finally", "BitStream with pos != 0 and a REJECTED property assignment: error raised, bits untouched, pos reset to 0"),
 'C17-1': ("tofile chunk loop drops the last chunk", "length an exact multiple of the chunk size with >= 2 chunks"),
 'C17-2': ("_setfile window check '>' became '>='", "file route, non-zero offset, explicit length, window ending exactly at the end of the file"),
 'C17-3': ("Array.fromfile: min(n or max_items, max_items)", "explicit n == 0 (appends the whole file instead of nothing)"),
 'C20-1': ("pack(): single-token fast path installs the source's own store", "one 'bits' token whose value is an immutable Bits / token string, then in-place mutation of the packed stream: the immutable object changes"),
 'C20-2': ("BitStream.__setitem__: integer-key fast path skips the pos reset", "s[i] = Bits() (empty value removes the bit) with pos at the end: pos > len"),
 'C20-3': ("BitArray.insert: bounds check reordered", "plain BitArray (or Array) route and pos < -len: AssertionError from Bits._insert"),
}
NEEDS.update({
 'C03-r2-1': ("_replace: 'if bytealigned is None' became 'if not bytealigned'", "options.bytealigned = True, a call passing bytealigned=False, and an occurrence that is not byte aligned"),
 'C03-r2-2': ("'if bs is self: return self' short cut copied to __ixor__", "s ^= s (the object itself as operand) with at least one 1 bit"),
 'C03-r2-3': ("_overwrite: fast path treats pos == len as an append via _addright", "lsb0 mode, overwrite at exactly pos == len(s), non-empty operand"),
 'C04-r2-1': ("_setbool interns two shared, module-level stores", "a.bool = True through the PROPERTY route (never copies) on a mutable object, then an in-place change: every bool-valued bitstring changes"),
 'C04-r2-2': ("split yields self when the delimiter is not found over the whole range", "mutable object, delimiter absent, default start/end, then mutation of the single piece returned"),
 'C04-r2-3': ("new Bits.__deepcopy__ returning self", "copy.deepcopy of a BitArray/BitStream (or an Array, whose data is then shared), then mutation of either side"),
 'C06-r2-1': ("BitStream.__setitem__: early return for integer keys skips the pos reset", "non-zero pos, integer index, bitstring value of length != 1 ('' or '0b000')"),
 'C06-r2-2': ("Bits.__add__ returns self.copy() for an empty right operand", "ConstBitStream with pos != 0 plus an empty right operand: s + '' rewinds s and returns s itself"),
 'C06-r2-3': ("_readlist caches parsed formats keyed by format and keyword NAMES (values left out)", "readlist/peeklist/unpack called twice with the same format and keyword names but different values"),
 'C08-r2-1': ("__eq__ shortcut: same _filename and length -> True", "mutable object from a file (offset 0), a length-preserving in-place change, then == against another bitstring of the same file and length"),
 'C08-r2-2': ("_absolute_slice returns self for a whole-range slice of an immutable store", "Bits/ConstBitStream mapping a WHOLE file and a shift of exactly 0: x << 0 raises TypeError (read-only memory)"),
 'C08-r2-3': ("BytesIO initialiser: byte window ignores the sub-byte part of the offset", "BytesIO, explicit length, unaligned offset with offset%8 + ((length-1)%8+1) > 8: result comes back short"),
 'C09-r2-1': ("_addleft: fast path for an empty receiver uses copy()", "prepend(<str or Bits>) on an EMPTY BitArray/BitStream (append/+= in lsb0), in-place change, same string constructed again while cached"),
 'C09-r2-2': ("Dtype(<Dtype instance>, scale=s) rescales the cached object in place", "a Dtype OBJECT as first argument plus a different scale: every later Dtype('uint8') / unpack / Array picks up the foreign scale"),
 'C09-r2-3': ("BitStream.__init__ clears the immutable flag before copying (on the cached store)", "BitStream(s) first, then BitArray(s) with the same string while cached and no Bits(s) in between, then mutation, then construction from s"),
 'C12-r2-1': ("rotation by more than half the window done 'the other way' through the swapped hooks", "lsb0, rol/ror with a count strictly greater than half the window"),
 'C12-r2-2': ("BitArray.insert fast path _addright when pos == len", "lsb0, BitArray (not BitStream), pos exactly len(self)"),
 'C12-r2-3': ("_rfind_lsb0: byte-wise shortcut filters on the msb0 position", "lsb0, rfind, bytealigned, len(self) % 8 == 0 and len(pattern) % 8 != 0"),
 'C14-r2-1': ("Array.__delitem__: negative-step slice rewritten as a forward slice", "step <= -2 and a range not aligned to |step| (del a[::-2] on an even number of items)"),
 'C14-r2-2': ("Array ==/!= compares encodings when dtypes match", "float dtype with +0.0 vs -0.0, or NaN vs the same NaN"),
 'C14-r2-3': ("step-1 slice assignment splices a same-dtype Array's data as is", "source Array of the same dtype WITH trailing bits"),
 'C15-r2-1': ("integer cache in int2bitstore keyed by (value, length) without signedness", "the same value and length built legally as UNSIGNED first; afterwards every signed route accepts the out-of-range value"),
 'C15-r2-2': ("pack: keyword-length lookup moved below the bits branch", "pack('bits:n', value, n=k) with k != len(value)"),
 'C15-r2-3': ("oct2bitstore uses int(s, 8)", "oct strings that int() understands but are not octal digits: '+7', '-0', non-ASCII digits"),
 'C17-r2-1': ("tofile fast path writes an immutable store's buffer without zeroing the pad bits", "Bits/ConstBitStream, length % 8 != 0, a route that leaves garbage in the pad bits, tofile before any tobytes"),
 'C17-r2-2': ("_setfile maps from the allocation unit holding the offset and subtracts BYTES from a BIT offset", "file larger than mmap.ALLOCATIONGRANULARITY and an offset of at least that many bytes"),
 'C17-r2-3': ("Array.tofile writes whole items only", "an Array whose data is not a whole number of items (trailing bits / dtype change)"),
 'C20-r2-1': ("_readue end-of-data check off by one", "readlist/unpack (not read/peek) of a ue/se code with >= 2 leading zeros cut short by exactly one bit: pos > len"),
 'C20-r2-2': ("tofile switches lsb0 off around the chunk loop without try/finally", "lsb0 on, non-empty bitstring, a writer that FAILS: options.lsb0 is left False"),
 'C20-r2-3': ("_pp: width clamp moved into the two-format branch only", "pp() with exactly one format of length 0 ('hex:0') and a width no larger than the offset column: AssertionError"),
})
PORTED = {'C14-2': '/tmp/mut/C14/_port', 'C17-1': '/tmp/mut/C17/_port'}
CROSS = {'C08-1': ['C15', 'C17'], 'C08-2': ['C04'], 'C09-1': ['C04'], 'C20-1': ['C04'], 'C20-2': ['C06'],
         'C03-r2-3': ['C12'], 'C08-r2-3': ['C15', 'C17'], 'C17-r2-2': ['C15'], 'C20-r2-1': ['C06']}
MISSED_BEFORE = {'C03-2': 'E-MUT generated descending ranges only down to -1 and thinned range trigger tags',
                 'C08-1': 'E-ROUTE always left >= 1 slack byte after the window',
                 'C08-2': 'E-ROUTE discarded objects derived from the pair',
                 'C09-1': 'E-CACHE mutated results whose bits rarely came from a key string of the universe',
                 'C12-3': 'E-LSB0 toggled with True/False only',
                 'C20-1': 'E-CHAOS dropped pack() results',
                 'C20-2': 'E-CHAOS rarely had a stream positioned at its end before an item assignment with an empty value',
                 'C03-r2-3': 'E-MUT runs in msb0 only (C03 does not quantify over configurations); the lsb0 semantics are C12\'s and E-LSB0 catches it',
                 'C04-r2-1': 'E-ALIAS assigned only five properties and had no value-keyword constructor routes; the leaked module-level state also needed the history replay',
                 'C08-r2-1': 'E-ROUTE compared the pair only with in-memory objects, never with another object from the same file',
                 'C08-r2-3': 'by design: E-ROUTE builds its twin from the observed bits; a wrong window is C15/C17 territory (both catch it)',
                 'C09-r2-2': 'E-CACHE never passed a Dtype instance to Dtype()',
                 'C15-r2-2': 'E-REJECT gave keyword lengths to integer tokens only',
                 'C15-r2-3': 'E-REJECT had a fixed list of nine malformed literals',
                 'C17-r2-2': 'quick-tier files were at most 1025 bytes',
                 'C20-r2-1': 'E-CHAOS had random stream content: a codeword cut by exactly one bit was too rare'}
only = sys.argv[1:]
for key in sorted(NEEDS):
    if only and key not in only:
        continue
    prop, n = key.split('-')[0], key.split('-')[-1]
    src = PORTED.get(key, f'/tmp/mut2/{prop}/_out' if '-r2-' in key else f'/tmp/mut/{prop}/_out')
    d = os.path.join(V, 'seeded', key)
    os.makedirs(d, exist_ok=True)
    shutil.copy(os.path.join(src, f'patch{n}.diff'), os.path.join(d, 'patch.diff'))
    shutil.copy(os.path.join(src, f'demo{n}.py'), os.path.join(d, 'demo.py'))
    if key in PORTED:
        shutil.copy(f'/tmp/mut/{prop}/_out/patch{n}.diff', os.path.join(d, 'patch_as_seeded.diff'))
    r = subprocess.run([sys.executable, '-B', os.path.join(V, 'tools', 'seed_eval.py'), src, n, prop], capture_output=True, text=True)
    try:
        o = json.loads(r.stdout)
    except Exception:
        o = {'error': (r.stdout + r.stderr)[-500:]}
    own = o.get('checks', {}).get(prop, {})
    head = subprocess.run(['git', '-C', '/repo', 'rev-parse', '--short', 'HEAD'], capture_output=True, text=True).stdout.strip()
    meta = {
        'id': key, 'breaks_property': prop, 'change': NEEDS[key][0], 'needs_to_manifest': NEEDS[key][1],
        'origin': ('second-round ' if '-r2-' in key else '') + 'fresh sub-agent given only the property text' + (' plus one-line descriptions of the first-round ideas to avoid,' if '-r2-' in key else '') + ' and its own scratch worktree of /repo (no access to /verif)'
                  + ('; the patch no longer applied after later fix: commits and was re-based by hand (patch_as_seeded.diff is the original)' if key in PORTED else ''),
        'validated_against_repo_head': head,
        'what_was_run': ['git worktree of /repo HEAD under /tmp + git apply patch.diff', 'unedited test suite in the patched tree', 'demo.py on /repo and on the patched tree',
                         f'BITSIM_REPO=<patched tree> ./check {prop} --tier quick', 'scratch worktree removed'],
        'applies_cleanly': o.get('applies'), 'applies_with_3way': o.get('applies_3way'), 'existing_suite_passes_with_change': o.get('suite_passes'),
        'demo_exit_clean': o.get('demo_clean_rc'), 'demo_exit_with_change': o.get('demo_patched_rc'),
        'caught_by_own_check': own.get('rc') == 1, 'own_check_signatures': own.get('signatures', [])[:4], 'own_check_wall_s': own.get('wall'),
        'also_caught_by': CROSS.get(key, []),
        'missed_at_first': MISSED_BEFORE.get(key),
    }
    json.dump(meta, open(os.path.join(d, 'meta.json'), 'w'), indent=1)
    print(key, 'suite', meta['existing_suite_passes_with_change'], 'demo', meta['demo_exit_clean'], meta['demo_exit_with_change'], 'caught', meta['caught_by_own_check'], meta['own_check_signatures'][:1])
