#!/venv/bin/python
"""Validate one independently seeded change and run checks against it.

usage: seed_eval.py <src_dir> <N> <PROP> [check ids...]
  src_dir/patchN.diff, src_dir/demoN.py  come from a fresh sub-agent's scratch worktree.
Steps: (1) scratch worktree of /repo HEAD under /tmp, apply the patch; (2) the unedited suite must pass there;
(3) the demo must exit 0 on /repo and non-zero on the patched tree; (4) every requested check (default: PROP) is
run with BITSIM_REPO pointing at the patched tree; (5) the scratch worktree is removed.  Prints a JSON summary.
"""
import json, os, shutil, subprocess, sys, time
V = os.path.dirname(os.path.dirname(os.path.abspath(__file__)))
src, n, prop = sys.argv[1], sys.argv[2], sys.argv[3]
checks = sys.argv[4:] or [prop]
patch = os.path.join(src, f'patch{n}.diff')
demo = os.path.join(src, f'demo{n}.py')
wt = f'/tmp/seedev_{prop}_{n}_{os.getpid()}'
out = {'property': prop, 'n': int(n), 'patch': patch}
def sh(cmd, **kw):
    return subprocess.run(cmd, shell=True, capture_output=True, text=True, **kw)
try:
    r = sh(f'git -C /repo worktree add -q --detach {wt} HEAD')
    r = sh(f'git -C {wt} apply --whitespace=nowarn {patch}')
    out['applies'] = r.returncode == 0
    if not out['applies']:
        r3 = sh(f'git -C {wt} apply --3way --whitespace=nowarn {patch}')
        out['applies_3way'] = r3.returncode == 0
        if r3.returncode != 0:
            out['apply_error'] = (r.stderr + r3.stderr)[-400:]
            print(json.dumps(out, indent=1)); sys.exit(1)
    r = sh(f'cd {wt} && env -u BITSTRING_VERIF /venv/bin/python -m pytest -q -p no:cacheprovider --benchmark-disable -q 2>&1 | tail -3', timeout=900)
    out['suite_tail'] = r.stdout.strip()[-300:]
    out['suite_passes'] = ('failed' not in r.stdout and 'error' not in r.stdout.lower())
    sh(f'rm -f {wt}/tests/temp_bitstring_unit_testing_file {wt}/tests/temp_unit_test_file')
    r = sh(f'cd /repo && PYTHONPATH=/repo /venv/bin/python {demo}', timeout=300)
    out['demo_clean_rc'] = r.returncode
    r = sh(f'cd {wt} && PYTHONPATH={wt} /venv/bin/python {demo}', timeout=300)
    out['demo_patched_rc'] = r.returncode
    out['demo_patched_tail'] = (r.stdout + r.stderr).strip()[-300:]
    out['checks'] = {}
    for c in checks:
        t0 = time.time()
        env = dict(os.environ, BITSIM_REPO=wt)
        r = subprocess.run([os.path.join(V, 'check'), c, '--tier', os.environ.get('SEED_TIER', 'quick')], capture_output=True, text=True, env=env, cwd=V, timeout=3600)
        sigs = [l.strip().split('signature=', 1)[1] for l in r.stdout.splitlines() if l.strip().startswith('signature=')]
        out['checks'][c] = {'rc': r.returncode, 'violations': r.stdout.count('VIOLATION property='), 'signatures': sigs[:6], 'wall': round(time.time() - t0, 1),
                            'harness': [l for l in r.stdout.splitlines() if l.startswith('HARNESS')][:3]}
        # the patched run rewrote the evidence file: restore the committed one
        sh(f'git -C {V} checkout -- evidence/{c}.json')
finally:
    sh(f'git -C /repo worktree remove --force {wt}')
    shutil.rmtree(wt, ignore_errors=True)
print(json.dumps(out, indent=1))
