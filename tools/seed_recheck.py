#!/venv/bin/python
"""Re-evaluate the committed seeded changes (/verif/seeded/<id>/patch.diff + demo.py) against the current /repo HEAD and the
current checks.  usage: seed_recheck.py [id ...] [--tier quick|thorough] [--all-checks]
For each: scratch worktree of /repo HEAD, apply, unedited suite, demo clean/patched, own check (or all ten) with
BITSIM_REPO=<patched tree>; meta.json is updated in place; the scratch worktree is removed."""
import json, os, shutil, subprocess, sys, glob, time
V = os.path.dirname(os.path.dirname(os.path.abspath(__file__)))
args = [a for a in sys.argv[1:] if not a.startswith('--')]
tier = 'thorough' if '--thorough' in sys.argv else 'quick'
ALL = ['C03', 'C04', 'C06', 'C08', 'C09', 'C12', 'C14', 'C15', 'C17', 'C20']
def sh(cmd, **kw):
    return subprocess.run(cmd, shell=True, capture_output=True, text=True, **kw)
ids = args or sorted(os.path.basename(os.path.dirname(p)) for p in glob.glob(os.path.join(V, 'seeded', '*', 'meta.json')))
tally = {'own': 0, 'any': 0, 'n': 0}
for key in ids:
    d = os.path.join(V, 'seeded', key)
    meta = json.load(open(os.path.join(d, 'meta.json')))
    prop = meta['breaks_property']
    wt = f'/tmp/seedre_{key}_{os.getpid()}'
    try:
        sh(f'git -C /repo worktree add -q --detach {wt} HEAD')
        r = sh(f'git -C {wt} apply --whitespace=nowarn {d}/patch.diff')
        if r.returncode != 0:
            r = sh(f'git -C {wt} apply --3way --whitespace=nowarn {d}/patch.diff')
        meta['applies_to_head'] = r.returncode == 0
        if r.returncode != 0:
            print(key, 'DOES NOT APPLY to HEAD any more:', r.stderr[-200:])
            continue
        r = sh(f'cd {wt} && env -u BITSTRING_VERIF /venv/bin/python -m pytest -q -p no:cacheprovider --benchmark-disable -q 2>&1 | tail -2', timeout=900)
        meta['existing_suite_passes_with_change'] = ('failed' not in r.stdout and 'error' not in r.stdout.lower())
        sh(f'rm -f {wt}/tests/temp_bitstring_unit_testing_file {wt}/tests/temp_unit_test_file')
        meta['demo_exit_clean'] = sh(f'cd /repo && PYTHONPATH=/repo /venv/bin/python {d}/demo.py', timeout=300).returncode
        meta['demo_exit_with_change'] = sh(f'cd {wt} && PYTHONPATH={wt} /venv/bin/python {d}/demo.py', timeout=300).returncode
        caught = []
        for c in (ALL if '--all-checks' in sys.argv else [prop]):
            r = subprocess.run([os.path.join(V, 'check'), c, '--tier', tier], capture_output=True, text=True, env=dict(os.environ, BITSIM_REPO=wt), cwd=V, timeout=7200)
            sigs = [l.strip().split('signature=', 1)[1] for l in r.stdout.splitlines() if l.strip().startswith('signature=')]
            sh(f'git -C {V} checkout -- evidence/{c}.json')
            if r.returncode == 1 and 'VIOLATION property=' in r.stdout:
                caught.append(c)
                if c == prop:
                    meta['own_check_signatures'] = sigs[:4]
            if c == prop:
                meta['caught_by_own_check'] = (r.returncode == 1 and 'VIOLATION property=' in r.stdout)
                meta['own_check_exit'] = r.returncode
        if '--all-checks' in sys.argv:
            meta['also_caught_by'] = [c for c in caught if c != prop]
        meta['validated_against_repo_head'] = sh('git -C /repo rev-parse --short HEAD').stdout.strip()
        json.dump(meta, open(os.path.join(d, 'meta.json'), 'w'), indent=1)
        tally['n'] += 1
        tally['own'] += bool(meta.get('caught_by_own_check'))
        tally['any'] += bool(meta.get('caught_by_own_check') or meta.get('also_caught_by'))
        print(key, 'suite', meta['existing_suite_passes_with_change'], 'demo', meta['demo_exit_clean'], meta['demo_exit_with_change'],
              'own', meta.get('caught_by_own_check'), 'others', meta.get('also_caught_by'))
    finally:
        sh(f'git -C /repo worktree remove --force {wt}')
        shutil.rmtree(wt, ignore_errors=True)
print('tally', tally)
