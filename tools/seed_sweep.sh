#!/bin/sh
# usage: tools/seed_sweep.sh <first seed> <last seed> [tier]   - every check under every seed; prints only non-OK outcomes + a tally
first=${1:-2}; last=${2:-10}; tier=${3:-quick}
cd "$(dirname "$0")/.."
ok=0; bad=0
for sd in $(seq "$first" "$last"); do
  for p in C03 C04 C06 C08 C09 C12 C14 C15 C17 C20; do
    out=$(VERIF_SEED=$sd ./check $p --tier "$tier" 2>&1); rc=$?
    if [ $rc -eq 0 ]; then ok=$((ok+1)); else bad=$((bad+1)); echo "[$p seed=$sd rc=$rc]"; echo "$out" | grep -E "^(VIOLATION|  signature|  detail|HARNESS|NOTE)" | cut -c1-400; fi
  done
done
echo "seed sweep $first..$last tier=$tier: ok=$ok not-ok=$bad"
