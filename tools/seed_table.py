#!/venv/bin/python
"""Print the markdown rows of DESIGN.md section 13 for one round of seeded changes: tools/seed_table.py r3"""
import glob, json, os, sys
V = os.path.dirname(os.path.dirname(os.path.abspath(__file__)))
tag = sys.argv[1] if len(sys.argv) > 1 else 'r3'
print('| id | change | needs | own check | other checks | at first |')
print('|---|---|---|---|---|---|')
tally = {'n': 0, 'first': 0, 'own': 0, 'any': 0}
for m in sorted(glob.glob(os.path.join(V, 'seeded', f'*-{tag}-*', 'meta.json'))):
    d = json.load(open(m))
    sig = '; '.join('`' + s.split('|', 1)[1] + '`' for s in d.get('own_check_signatures', [])[:2])
    own = f"**{d['breaks_property']}** {sig}" if d.get('caught_by_own_check') else 'not by its own check'
    first = 'caught' if 'missed_at_first' not in d else '**missed** -> ' + d['missed_at_first']
    others = ', '.join(d.get('also_caught_by', []))
    print(f"| {d['id']} | {d['change'][:120].replace('|', '\\|')} | {d['needs_to_manifest'][:140].replace('|', '\\|')} | {own} | {others} | {first} |")
    tally['n'] += 1
    tally['first'] += 'missed_at_first' not in d
    tally['own'] += bool(d.get('caught_by_own_check'))
    tally['any'] += bool(d.get('caught_by_own_check') or d.get('also_caught_by'))
print()
print(tally)
