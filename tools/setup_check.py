#!/venv/bin/python
"""MANIFEST.setup_cmd: byte-compile the framework, verify bitstring imports from /repo, run a small determinism
self-test (same seeds twice under two PYTHONHASHSEED values, fresh interpreters)."""
import compileall, os, subprocess, sys
V = os.path.dirname(os.path.dirname(os.path.abspath(__file__)))
sys.path.insert(0, V)
ok = compileall.compile_dir(os.path.join(V, 'bitsim'), quiet=1, force=True)
if not ok:
    sys.exit('byte-compilation failed')
from bitsim import loader
print('bitstring from', loader.main().pkg.__file__)
from bitsim.runner import ENGINES
bad = 0
for p in sorted(ENGINES):
    mod = ENGINES[p].split(':')[0].replace('.', '/') + '.py'
    if not os.path.exists(os.path.join(V, mod)):
        continue
    ds = []
    for hs, w in (('0', '1'), ('4242', '4')):
        env = dict(os.environ, PYTHONHASHSEED=hs)
        r = subprocess.run([sys.executable, '-B', os.path.join(V, 'check.py'), p, '--digest', '--runs', '24', '--workers', w, '--seed', '7'],
                           capture_output=True, text=True, env=env, cwd=V, timeout=600)
        ds.append(r.stdout.strip().splitlines()[-1] if r.stdout.strip() else 'ERR ' + r.stderr[-300:])
    print(p, 'determinism', 'OK' if len(set(ds)) == 1 and not ds[0].startswith(('ERR', 'HARNESS')) else 'MISMATCH ' + str(ds))
    bad += not (len(set(ds)) == 1 and not ds[0].startswith(('ERR', 'HARNESS')))
sys.exit(1 if bad else 0)
