#!/venv/bin/python
"""Development aid: run a batch and list the distinct incident signatures with one example each (no minimisation)."""
import sys, os, json
sys.path.insert(0, os.path.dirname(os.path.dirname(os.path.abspath(__file__))))
from bitsim import runner, kernel
prop = sys.argv[1]; runs = int(sys.argv[2]) if len(sys.argv) > 2 else 1000
Eng = runner.engine_factory(prop)
plan = Eng().plan('quick', 1)[:runs]
agg = runner.run_batch(prop, 'quick', 1, plan_override=plan)
if agg['harness']: print('HARNESS', agg['harness'])
seen = {}
for u in agg['unknown']:
    seen.setdefault(u['incident']['signature'], u)
print(len(seen), 'distinct signatures (first 50 per worker chunk only), known hits:', dict(agg['known_hit']))
for s in sorted(seen):
    u = seen[s]
    print(s, '::', kernel.jdump(u['incident']['detail'])[:int(os.environ.get('W', '260'))])
