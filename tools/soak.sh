#!/bin/sh
# Long background exploration (start with: vp run --timeout 6h -- tools/soak.sh): multi-seed quick sweep, then every thorough tier.
cd "$(dirname "$0")/.."
tools/seed_sweep.sh 8 30 quick
for p in C03 C04 C06 C08 C09 C12 C14 C15 C17 C20; do
  echo "== thorough $p"; ./check $p --tier thorough 2>&1 | grep -E "^(C[0-9]+ E-|VIOLATION|  signature|  detail|  note|HARNESS|NOTE|OK)" | cut -c1-500
done
