#!/bin/sh
# every thorough tier once (start with: vp run --timeout 6h -- tools/thorough_all.sh [seed])
cd "$(dirname "$0")/.."
sd=${1:-1}
for p in C17 C15 C09 C12 C04 C20 C06 C08 C14 C03; do
  echo "== thorough $p seed=$sd"; VERIF_SEED=$sd BITSIM_EVIDENCE_DIR=/tmp/ev_thorough_$$ ./check $p --tier thorough 2>&1 | grep -E "^(C[0-9]+ E-|VIOLATION|  signature|  detail|  note|HARNESS|NOTE|OK)" | cut -c1-600
done
rm -rf /tmp/ev_thorough_$$
