#!/bin/sh
# usage: tools/try_patch.sh <patch file> <check id> [tier]   - apply a patch to a scratch worktree of /repo HEAD, run one check against it, remove the worktree
patch=$1; id=$2; tier=${3:-quick}
wt=/tmp/try_$$_$id
cd "$(dirname "$0")/.."
git -C /repo worktree add -q --detach "$wt" HEAD || exit 2
if ! git -C "$wt" apply --whitespace=nowarn "$patch"; then git -C "$wt" apply --3way --whitespace=nowarn "$patch" || { git -C /repo worktree remove --force "$wt"; echo "patch does not apply"; exit 2; }; fi
BITSIM_NO_COVERAGE=1 BITSIM_EVIDENCE_DIR=/tmp/try_ev_$$ BITSIM_REPO="$wt" ./check "$id" --tier "$tier" 2>&1 | grep -E "^(C[0-9]+ E-|VIOLATION|  signature|HARNESS|NOTE|OK)" | cut -c1-300
git -C /repo worktree remove --force "$wt"; rm -rf "$wt" /tmp/try_ev_$$

