#!/venv/bin/python
"""Development aid: which statements of a property's anchored files does a sample of its quick batch never execute?
usage: tools/uncovered.py <ID> [n_runs] [file-substring]   - prints the missed lines with their source text."""
import json, os, sys
V = os.path.dirname(os.path.dirname(os.path.abspath(__file__)))
sys.path.insert(0, V)
sys.dont_write_bytecode = True
import coverage
from bitsim import runner, loader

prop = sys.argv[1]
n = int(sys.argv[2]) if len(sys.argv) > 2 else 400
only = sys.argv[3] if len(sys.argv) > 3 else ''
files = []
for line in open(os.path.join(V, 'properties.jsonl')):
    pr = json.loads(line)
    if pr['id'] == prop:
        files = pr['anchors']['files']
Eng = runner.engine_factory(prop)
descs = Eng().plan('quick', 1)
cov = coverage.Coverage(data_file=None, include=[os.path.join(loader.ROOT, 'bitstring', '*')])
cov.start()
step = max(1, len(descs) // n)
for d in descs[::step][:n]:
    Eng().run(d)
cov.stop()
for rel in files:
    if only and only not in rel:
        continue
    path = os.path.join(loader.ROOT, rel)
    try:
        _, stmts, _, missing, _ = cov.analysis2(path)
    except Exception as e:
        print(rel, 'not measured', e)
        continue
    src = open(path).read().split('\n')
    print(f'==== {rel}: {len(stmts) - len(missing)}/{len(stmts)} executed')
    prev = None
    for ln in missing:
        if prev is not None and ln != prev + 1:
            print('    ...')
        print(f'{ln:5d}  {src[ln - 1]}')
        prev = ln
